// Package mc is the exploration engine: a stateless depth-first enumerator of
// every choice sequence a harness can make, with an optional bound on the number
// of "deviations" (departures from the default environment answer), optional
// explicit-state pruning on fingerprints, prefix sharding across processes and
// replay of a recorded choice list.
//
// A harness is a func(*Exec). Every nondeterministic decision it takes goes
// through Exec.Choose (free alternative: operation, argument, configuration) or
// Exec.Deviate (alternative 0 is the default answer, every other one costs one
// deviation). The engine owns all nondeterminism: replaying a choice list twice
// must give identical observations, and a mismatch while replaying a prefix is a
// hard harness error, never a finding.
package mc

import (
	"fmt"
	"hash/fnv"
	"runtime"
	"sort"
	"strings"
	"sync"
	"sync/atomic"
	"time"
)

type point struct {
	n     int
	costs bool
}

type labelRec struct {
	label string
	c, n  int
}

// Violation is one failed oracle in one execution.
type Violation struct {
	Key     string   `json:"key"`     // failure class (call site / history class), never a data hash
	Msg     string   `json:"msg"`     // human readable
	Choices []int    `json:"choices"` // replayable choice list
	Labels  []string `json:"labels"`  // what each choice meant
	Count   int      `json:"count"`   // executions that failed with this key
}

// Exec is one execution of the harness.
type Exec struct {
	e        *Explorer
	prefix   []int
	choices  []int
	points   []point
	labrec   []labelRec
	devs     int
	pruned   bool
	nontriv  bool
	outcome  string
	failed   bool
	depth    int
	replayOn bool
	Log      []string // filled only in replay mode
}

// HarnessError is panicked for problems of the machinery itself.
type HarnessError struct{ Msg string }

func (h HarnessError) Error() string { return "harness error: " + h.Msg }

func (x *Exec) choose(n int, label string, costs bool) int {
	if n <= 0 {
		panic(HarnessError{fmt.Sprintf("choice %q with %d alternatives", label, n)})
	}
	i := len(x.choices)
	c := 0
	if i < len(x.prefix) {
		c = x.prefix[i]
		if c >= n || c < 0 {
			panic(HarnessError{fmt.Sprintf("replay divergence at point %d (%s): choice %d of %d", i, label, c, n)})
		}
	}
	x.choices = append(x.choices, c)
	x.points = append(x.points, point{n, costs})
	x.labrec = append(x.labrec, labelRec{label, c, n})
	atomic.AddInt64(&x.e.progress, 1)
	x.e.curMu.Lock()
	x.e.curChoices = append(x.e.curChoices[:0], x.choices...)
	x.e.curLabels = append(x.e.curLabels[:0], x.labrec...)
	x.e.curMu.Unlock()
	if costs && c != 0 {
		x.devs++
	}
	return c
}

// Choose returns one of n free alternatives.
func (x *Exec) Choose(n int, label string) int { return x.choose(n, label, false) }

// Deviate returns 0 for the default answer or 1..n-1 for a deviation.
func (x *Exec) Deviate(n int, label string) int { return x.choose(n, label, true) }

// Replaying reports whether this execution is a single replay (verbose logging wanted).
func (x *Exec) Replaying() bool { return x.replayOn }

// Logf records a line in replay mode.
func (x *Exec) Logf(f string, a ...interface{}) {
	if x.replayOn {
		x.Log = append(x.Log, fmt.Sprintf(f, a...))
	}
}

// State reports the fingerprint of the system after a step together with the
// remaining depth budget. It returns false when an equal state has already been
// expanded with at least that much budget: the harness must then end the
// execution (no further choices). Only sound when fp covers everything the
// rest of the execution and its oracle can depend on.
func (x *Exec) State(fp uint64, remaining int) bool {
	e := x.e
	if _, ok := e.distinct[fp]; !ok {
		e.distinct[fp] = struct{}{}
		e.stats.States++
	}
	if len(x.choices) < len(x.prefix) {
		// inside the replayed prefix: this state was reported by the parent execution
		return true
	}
	if !e.Merge || x.replayOn {
		return true
	}
	if e.MaxDev >= 0 {
		fp = fp*1099511628211 + uint64(x.devs) + 1
	}
	if r, ok := e.seen[fp]; ok && r >= remaining {
		x.pruned = true
		e.stats.Pruned++
		return false
	}
	e.seen[fp] = remaining
	return true
}

// Note counts a fingerprint as a visited state without pruning.
func (x *Exec) Note(fp uint64) {
	if _, ok := x.e.distinct[fp]; !ok {
		x.e.distinct[fp] = struct{}{}
		x.e.stats.States++
	}
}

// NonTrivial marks the execution as non-trivial by the harness's stated rule.
func (x *Exec) NonTrivial() { x.nontriv = true }

// Outcome sets the observable result digest of the execution.
func (x *Exec) Outcome(s string) { x.outcome = s }

// Fail records a violation with a class key.
func (x *Exec) Fail(key, format string, a ...interface{}) {
	x.failed = true
	msg := fmt.Sprintf(format, a...)
	if len(msg) > 2000 {
		msg = msg[:2000] + "…"
	}
	x.e.addViolation(key, msg, x)
}

// Failed reports whether Fail was called in this execution.
func (x *Exec) Failed() bool { return x.failed }

// Table records a (case, digest) pair for cross-process joins (C18).
func (x *Exec) Table(caseID, digest string) {
	if x.e.TableOut != nil {
		x.e.TableOut[caseID] = digest
	}
}

// Stats are the measured counters of one exploration.
type Stats struct {
	Executions  int64  `json:"executions"`
	NonTrivial  int64  `json:"nontrivial"`
	Transitions int64  `json:"transitions"`
	States      int64  `json:"states"`
	Pruned      int64  `json:"pruned"`
	Outcomes    int64  `json:"outcomes"`
	MaxDepth    int    `json:"max_depth"`
	Bound       int    `json:"bound_completed"` // largest deviation bound fully explored (-1: none)
	Exhaustive  bool   `json:"exhaustive"`
	CapHit      string `json:"cap_hit,omitempty"`
}

// Explorer drives a harness over its whole choice tree.
type Explorer struct {
	Harness    func(x *Exec)
	MaxDev     int  // deviation bound; <0 = unbounded
	Merge      bool // explicit-state pruning via Exec.State
	Shard      int
	NShard     int
	ShardDepth int
	Deadline   time.Time
	MaxSamples int
	TableOut   map[string]string

	progress   int64 // atomically incremented at every choice point
	curMu      sync.Mutex
	curChoices []int
	curLabels  []labelRec

	stats    Stats
	seen     map[uint64]int
	distinct map[uint64]struct{}
	outcomes map[uint64]struct{}
	viol     map[string]*Violation
	Samples  [][]string
	curBound int
	stop     bool
}

func (e *Explorer) addViolation(key, msg string, x *Exec) {
	if e.viol == nil {
		e.viol = map[string]*Violation{}
	}
	if v, ok := e.viol[key]; ok {
		v.Count++
		return
	}
	e.viol[key] = &Violation{Key: key, Msg: msg, Choices: append([]int{}, x.choices...), Labels: x.Labels(), Count: 1}
}

// Violations returns the recorded violations sorted by key.
func (e *Explorer) Violations() []Violation {
	var out []Violation
	for _, v := range e.viol {
		out = append(out, *v)
	}
	sort.Slice(out, func(i, j int) bool { return out[i].Key < out[j].Key })
	return out
}

func hashPrefix(c []int) uint32 {
	h := fnv.New32a()
	for _, v := range c {
		h.Write([]byte{byte(v), byte(v >> 8), byte(v >> 16), 0xfe})
	}
	return h.Sum32()
}

func (e *Explorer) owns(c []int) bool {
	if e.NShard <= 1 {
		return true
	}
	d := e.ShardDepth
	if d <= 0 {
		d = 2
	}
	if len(c) > d {
		c = c[:d]
	}
	return int(hashPrefix(c)%uint32(e.NShard)) == e.Shard
}

// run executes the harness once with the given forced prefix.
func (e *Explorer) run(prefix []int, replay bool) *Exec {
	x := &Exec{e: e, prefix: prefix, replayOn: replay}
	func() {
		defer func() {
			if r := recover(); r != nil {
				if he, ok := r.(HarnessError); ok {
					panic(he)
				}
				if r == pruneSentinel {
					return
				}
				// An unexpected panic that escaped the harness's own guards.
				stack := make([]byte, 16384)
				stack = stack[:runtime.Stack(stack, false)]
				site := PanicSite(string(stack))
				if strings.Contains(site, "intel/fastgo/compress") || strings.Contains(site, "intel/fastgo/internal") {
					x.Fail("panic:"+site, "panic: %v\n%s", r, TrimStack(string(stack)))
					return
				}
				panic(HarnessError{fmt.Sprintf("panic in harness code: %v\n%s", r, stack)})
			}
		}()
		e.Harness(x)
	}()
	return x
}

type pruneT struct{}

var pruneSentinel = pruneT{}

// Stop ends the current execution immediately (used after State returned false).
func (x *Exec) Stop() { panic(pruneSentinel) }

// PanicSite extracts the first stack frame inside fastgo (or, failing that, the
// first non-runtime frame) from a stack dump: "pkg.func file:line".
func PanicSite(stack string) string {
	lines := strings.Split(stack, "\n")
	first := ""
	for i := 0; i+1 < len(lines); i++ {
		l := lines[i]
		if strings.HasPrefix(l, "\t") || l == "" || strings.HasPrefix(l, "goroutine ") {
			continue
		}
		if strings.HasPrefix(l, "runtime.") || strings.HasPrefix(l, "panic(") || strings.Contains(l, "runtime/debug") {
			continue
		}
		fn := l
		if k := strings.LastIndex(fn, "("); k > 0 {
			fn = fn[:k]
		}
		loc := strings.TrimSpace(lines[i+1])
		if k := strings.Index(loc, " +0x"); k > 0 {
			loc = loc[:k]
		}
		if k := strings.LastIndex(loc, "/"); k >= 0 {
			loc = loc[k+1:]
		}
		// drop the line number: keys must survive unrelated edits
		if k := strings.Index(loc, ":"); k > 0 {
			loc = loc[:k]
		}
		s := fn + "@" + loc
		if first == "" {
			first = s
		}
		if strings.Contains(l, "intel/fastgo/compress") || strings.Contains(l, "intel/fastgo/internal") {
			return s
		}
	}
	return first
}

// TrimStack shortens a stack dump for messages: function names of library frames only.
func TrimStack(s string) string {
	var out []string
	for _, l := range strings.Split(s, "\n") {
		if strings.HasPrefix(l, "\t") || l == "" || strings.HasPrefix(l, "goroutine ") {
			continue
		}
		if !strings.Contains(l, "intel/fastgo/compress") && !strings.Contains(l, "intel/fastgo/internal") {
			continue
		}
		if k := strings.LastIndex(l, "("); k > 0 {
			l = l[:k]
		}
		l = strings.TrimPrefix(l, "github.com/intel/fastgo/")
		out = append(out, l)
		if len(out) >= 6 {
			break
		}
	}
	return "  stack: " + strings.Join(out, " <- ")
}

func (e *Explorer) account(x *Exec) {
	e.stats.Executions++
	if len(x.prefix) == 0 {
		e.stats.Transitions += int64(len(x.choices))
	} else {
		e.stats.Transitions += int64(len(x.choices) - len(x.prefix) + 1)
	}
	if x.nontriv {
		e.stats.NonTrivial++
	}
	if len(x.choices) > e.stats.MaxDepth {
		e.stats.MaxDepth = len(x.choices)
	}
	if x.outcome != "" {
		h := fnv.New64a()
		h.Write([]byte(x.outcome))
		k := h.Sum64()
		if _, ok := e.outcomes[k]; !ok {
			e.outcomes[k] = struct{}{}
			e.stats.Outcomes++
		}
	}
	if len(e.Samples) < e.MaxSamples && x.nontriv {
		// spread samples: take executions 1, 2, 4, 8, ... of the non-trivial ones
		n := e.stats.NonTrivial
		if n&(n-1) == 0 {
			lab := x.Labels()
			if x.outcome != "" {
				lab = append(lab, "outcome:"+trunc(x.outcome, 120))
			}
			e.Samples = append(e.Samples, lab)
		}
	}
}

func trunc(s string, n int) string {
	if len(s) > n {
		return s[:n] + "…"
	}
	return s
}

func (e *Explorer) explore(prefix []int) {
	if e.stop {
		return
	}
	if !e.Deadline.IsZero() && time.Now().After(e.Deadline) {
		e.stop = true
		e.stats.CapHit = "time budget"
		return
	}
	if e.NShard > 1 && len(prefix) >= e.shardDepth() && !e.owns(prefix) {
		return
	}
	x := e.run(prefix, false)
	// only the iteration whose bound equals the execution's deviation count accounts for it
	if (e.MaxDev < 0 || x.devs == e.curBound) && e.owns(x.choices) {
		e.account(x)
	}
	devs := 0
	for i := 0; i < len(x.points); i++ {
		p := x.points[i]
		if i >= len(prefix) {
			cost := devs
			if p.costs {
				cost++
			}
			if e.MaxDev < 0 || !p.costs || cost <= e.curBound {
				for alt := 1; alt < p.n; alt++ {
					np := make([]int, i+1)
					copy(np, x.choices[:i])
					np[i] = alt
					e.explore(np)
					if e.stop {
						return
					}
				}
			}
		}
		if p.costs && x.choices[i] != 0 {
			devs++
		}
	}
}

func (e *Explorer) shardDepth() int {
	if e.ShardDepth <= 0 {
		return 2
	}
	return e.ShardDepth
}

// Run explores everything within the bound and returns the measured stats.
func (e *Explorer) Run() Stats {
	e.seen = map[uint64]int{}
	e.distinct = map[uint64]struct{}{}
	e.outcomes = map[uint64]struct{}{}
	if e.MaxSamples == 0 {
		e.MaxSamples = 6
	}
	e.stats.Bound = -1
	if e.MaxDev < 0 {
		e.curBound = 0
		e.explore(nil)
		if !e.stop {
			e.stats.Exhaustive = true
			e.stats.Bound = 0
		}
		return e.stats
	}
	for b := 0; b <= e.MaxDev; b++ {
		e.curBound = b
		e.seen = map[uint64]int{}
		e.explore(nil)
		if e.stop {
			break
		}
		e.stats.Bound = b
	}
	e.stats.Exhaustive = !e.stop
	return e.stats
}

// Replay runs one recorded choice list with logging enabled.
func (e *Explorer) Replay(choices []int) *Exec {
	e.seen = map[uint64]int{}
	e.distinct = map[uint64]struct{}{}
	e.outcomes = map[uint64]struct{}{}
	x := e.run(choices, true)
	if len(x.choices) < len(choices) {
		panic(HarnessError{fmt.Sprintf("replay consumed %d of %d choices", len(x.choices), len(choices))})
	}
	return x
}

// Labels returns the labelled choices of the execution.
func (x *Exec) Labels() []string {
	out := make([]string, 0, len(x.labrec))
	for _, l := range x.labrec {
		out = append(out, fmt.Sprintf("%s=%d/%d", l.label, l.c, l.n))
	}
	return out
}

// Choices returns the choice list of the execution.
func (x *Exec) Choices() []int { return x.choices }

// OutcomeStr returns the outcome digest.
func (x *Exec) OutcomeStr() string { return x.outcome }

// IsSentinel reports whether a recovered value is the engine's own control-flow panic.
func IsSentinel(r interface{}) bool { _, ok := r.(pruneT); return ok }

// Progress returns a counter that grows while the exploration is alive.
func (e *Explorer) Progress() int64 { return atomic.LoadInt64(&e.progress) }

// Current returns the choices of the execution in progress (for a hang report).
func (e *Explorer) Current() ([]int, []string) {
	e.curMu.Lock()
	defer e.curMu.Unlock()
	c := append([]int{}, e.curChoices...)
	var l []string
	for _, r := range e.curLabels {
		l = append(l, fmt.Sprintf("%s=%d/%d", r.label, r.c, r.n))
	}
	return c, l
}

// Snapshot returns the stats and violations gathered so far (used when a hang aborts the run).
func (e *Explorer) Snapshot() (Stats, []Violation) { return e.stats, e.Violations() }
