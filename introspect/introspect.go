// Package introspect reaches private state of library objects generically
// (reflection + unsafe, no knowledge of field names): a fingerprint of
// everything reachable from an instance, and guard zones around the large
// internal byte/word slices so that unsafe or assembly stores outside a slice
// become visible.
package introspect

import (
	"hash/maphash"
	"reflect"
	"strings"
	"unsafe"
)

var seed = maphash.MakeSeed()

// Bytes hashes a byte slice with the process-wide seed.
func Bytes(b []byte) uint64 { return maphash.Bytes(seed, b) }

// Str hashes a string.
func Str(s string) uint64 { return maphash.String(seed, s) }

// Mix combines hashes.
func Mix(a ...uint64) uint64 {
	var h uint64 = 1469598103934665603
	for _, v := range a {
		h = (h ^ v) * 1099511628211
		h ^= h >> 29
	}
	return h
}

type walker struct {
	h       maphash.Hash
	visited map[uintptr]bool
	cheap   bool
	bytes   int
}

var ptrFreeCache = map[reflect.Type]bool{}

func ptrFree(t reflect.Type) bool {
	if v, ok := ptrFreeCache[t]; ok {
		return v
	}
	r := false
	switch t.Kind() {
	case reflect.Bool, reflect.Int, reflect.Int8, reflect.Int16, reflect.Int32, reflect.Int64,
		reflect.Uint, reflect.Uint8, reflect.Uint16, reflect.Uint32, reflect.Uint64, reflect.Uintptr,
		reflect.Float32, reflect.Float64, reflect.Complex64, reflect.Complex128:
		r = true
	case reflect.Array:
		r = ptrFree(t.Elem())
	case reflect.Struct:
		r = true
		for i := 0; i < t.NumField(); i++ {
			if !ptrFree(t.Field(i).Type) {
				r = false
				break
			}
		}
	}
	ptrFreeCache[t] = r
	return r
}

func rawBytes(p unsafe.Pointer, n uintptr) []byte {
	if n == 0 {
		return nil
	}
	return unsafe.Slice((*byte)(p), n)
}

func harnessType(t reflect.Type) bool {
	for t.Kind() == reflect.Ptr {
		t = t.Elem()
	}
	return strings.Contains(t.PkgPath(), "fastgo/verif")
}

func (w *walker) word(v uint64) {
	var b [8]byte
	*(*uint64)(unsafe.Pointer(&b[0])) = v
	w.h.Write(b[:])
}

func (w *walker) walk(v reflect.Value) {
	t := v.Type()
	if ptrFree(t) {
		n := t.Size()
		if w.cheap && n > 64 {
			return
		}
		w.h.Write(rawBytes(unsafe.Pointer(v.UnsafeAddr()), n))
		w.bytes += int(n)
		return
	}
	switch t.Kind() {
	case reflect.Ptr:
		if v.IsNil() {
			w.word(0)
			return
		}
		p := v.Pointer()
		if w.visited[p] {
			w.word(1)
			return
		}
		w.visited[p] = true
		if harnessType(t) {
			w.word(2)
			return
		}
		w.walk(v.Elem())
	case reflect.Interface:
		if v.IsNil() {
			w.word(0)
			return
		}
		e := v.Elem()
		w.h.WriteString(e.Type().String())
		if harnessType(e.Type()) {
			return
		}
		switch e.Kind() {
		case reflect.Ptr:
			w.walk(e)
		default:
			// non-pointer dynamic values are not addressable; copy to make them so
			c := reflect.New(e.Type()).Elem()
			c.Set(e)
			w.walk(c)
		}
	case reflect.Slice:
		w.word(uint64(v.Len()))
		w.word(uint64(v.Cap()))
		if v.IsNil() || v.Cap() == 0 {
			return
		}
		et := t.Elem()
		if ptrFree(et) {
			n := uintptr(v.Cap()) * et.Size()
			if w.cheap && n > 64 {
				return
			}
			w.h.Write(rawBytes(unsafe.Pointer(v.Pointer()), n))
			w.bytes += int(n)
			return
		}
		full := v.Slice(0, v.Cap())
		for i := 0; i < full.Len(); i++ {
			w.walk(full.Index(i))
		}
	case reflect.Array:
		for i := 0; i < v.Len(); i++ {
			w.walk(v.Index(i))
		}
	case reflect.Struct:
		for i := 0; i < t.NumField(); i++ {
			f := v.Field(i)
			f = reflect.NewAt(f.Type(), unsafe.Pointer(f.UnsafeAddr())).Elem()
			w.walk(f)
		}
	case reflect.String:
		s := *(*string)(unsafe.Pointer(v.UnsafeAddr()))
		w.h.WriteString(s)
	case reflect.Func:
		if v.IsNil() {
			w.word(0)
		} else {
			w.word(uint64(v.Pointer()))
		}
	case reflect.Map:
		w.word(uint64(v.Len()))
	default:
		// chan, unsafe.Pointer: identity only
		w.word(3)
	}
}

// Fingerprint hashes every byte of state reachable from obj (a pointer), skipping
// values whose type belongs to the harness (sinks and sources in io.Writer/io.Reader fields).
func Fingerprint(obj interface{}) uint64 {
	fp, _ := FingerprintN(obj, false)
	return fp
}

// FingerprintCheap hashes scalars only (arrays and slices over 64 bytes skipped): a control-state digest.
func FingerprintCheap(obj interface{}) uint64 {
	fp, _ := FingerprintN(obj, true)
	return fp
}

// FingerprintN also returns the number of bytes hashed.
func FingerprintN(obj interface{}, cheap bool) (uint64, int) {
	w := &walker{visited: map[uintptr]bool{}, cheap: cheap}
	w.h.SetSeed(seed)
	v := reflect.ValueOf(obj)
	if v.Kind() != reflect.Ptr || v.IsNil() {
		return 0, 0
	}
	w.walk(v)
	return w.h.Sum64(), w.bytes
}

// ---------------------------------------------------------------------------

const zone = 64
const canary = 0xA5

// Guards are the guard zones installed on one object.
type Guards struct {
	zones []guardZone
	cands []candidate
}

type guardZone struct {
	backing []uint64
	total   int // bytes of payload
	name    string
}

func libType(t reflect.Type) bool {
	for t.Kind() == reflect.Ptr {
		t = t.Elem()
	}
	return strings.Contains(t.PkgPath(), "intel/fastgo/compress")
}

type sliceHeader struct {
	Data unsafe.Pointer
	Len  int
	Cap  int
}

func (g *Guards) install(v reflect.Value, visited map[uintptr]bool, path string) {
	t := v.Type()
	switch t.Kind() {
	case reflect.Ptr:
		if v.IsNil() || visited[v.Pointer()] {
			return
		}
		visited[v.Pointer()] = true
		if !libType(t) {
			return
		}
		g.install(v.Elem(), visited, path)
	case reflect.Interface:
		if v.IsNil() {
			return
		}
		e := v.Elem()
		if e.Kind() == reflect.Ptr && libType(e.Type()) {
			g.install(e, visited, path)
		}
	case reflect.Struct:
		for i := 0; i < t.NumField(); i++ {
			f := v.Field(i)
			f = reflect.NewAt(f.Type(), unsafe.Pointer(f.UnsafeAddr())).Elem()
			g.install(f, visited, path+"."+t.Field(i).Name)
		}
	case reflect.Slice:
		et := t.Elem()
		if !ptrFree(et) || v.IsNil() {
			return
		}
		n := v.Cap() * int(et.Size())
		if n < 512 {
			return
		}
		hdr := (*sliceHeader)(unsafe.Pointer(v.UnsafeAddr()))
		g.cands = append(g.cands, candidate{hdr: hdr, n: n, name: path})
	}
}

type candidate struct {
	hdr  *sliceHeader
	n    int
	name string
}

// rehome moves the collected slices into guarded allocations. Slices whose memory overlaps another candidate (two
// fields aliasing one backing array) are left alone: moving one of them would break the aliasing the library relies on.
func (g *Guards) rehome() {
	for i, c := range g.cands {
		lo, hi := uintptr(c.hdr.Data), uintptr(c.hdr.Data)+uintptr(c.n)
		overlap := false
		for j, o := range g.cands {
			if i == j {
				continue
			}
			olo, ohi := uintptr(o.hdr.Data), uintptr(o.hdr.Data)+uintptr(o.n)
			if lo < ohi && olo < hi {
				overlap = true
			}
		}
		if overlap {
			continue
		}
		words := (c.n+2*zone)/8 + 2
		backing := make([]uint64, words)
		raw := unsafe.Slice((*byte)(unsafe.Pointer(&backing[0])), words*8)
		for k := range raw {
			raw[k] = canary
		}
		copy(raw[zone:zone+c.n], rawBytes(c.hdr.Data, uintptr(c.n)))
		c.hdr.Data = unsafe.Pointer(&raw[zone])
		g.zones = append(g.zones, guardZone{backing: backing, total: c.n, name: c.name})
	}
	g.cands = nil
}

// Install re-homes every internal scalar slice of at least 512 bytes reachable
// from obj through library types into an allocation with canary zones on both
// sides. Length, capacity and contents are preserved.
func Install(obj interface{}) *Guards {
	g := &Guards{}
	v := reflect.ValueOf(obj)
	if v.Kind() != reflect.Ptr || v.IsNil() {
		return g
	}
	g.install(v.Elem(), map[uintptr]bool{v.Pointer(): true}, "")
	g.rehome()
	return g
}

// N is the number of guarded slices.
func (g *Guards) N() int { return len(g.zones) }

// Check returns the name of the first slice whose guard zone was overwritten, or "".
func (g *Guards) Check() string {
	for _, z := range g.zones {
		raw := unsafe.Slice((*byte)(unsafe.Pointer(&z.backing[0])), len(z.backing)*8)
		for i := 0; i < zone; i++ {
			if raw[i] != canary {
				return z.name + " (before)"
			}
		}
		for i := zone + z.total; i < len(raw); i++ {
			if raw[i] != canary {
				return z.name + " (after)"
			}
		}
	}
	return ""
}

// Bytes2 is a process-independent hash (FNV-1a) for digests that are compared across processes.
func Bytes2(b []byte) uint64 {
	var h uint64 = 14695981039346656037
	for _, c := range b {
		h = (h ^ uint64(c)) * 1099511628211
	}
	return h
}
