package introspect

import (
	"bytes"
	"testing"
	"unsafe"
)

type inner struct {
	buf  []byte
	toks []uint32
	n    int
}

type outer struct {
	a   int
	in  *inner
	arr [100]byte
}

func TestGuardsDetectOutOfBoundsStores(t *testing.T) {
	o := &outer{in: &inner{buf: make([]byte, 1000, 1024), toks: make([]uint32, 0, 400)}}
	copy(o.in.buf, "hello")
	g := &Guards{}
	// the walker only follows library types; exercise the collector directly on the inner struct
	g.cands = append(g.cands, candidate{hdr: (*sliceHeader)(unsafe.Pointer(&o.in.buf)), n: cap(o.in.buf), name: ".buf"},
		candidate{hdr: (*sliceHeader)(unsafe.Pointer(&o.in.toks)), n: cap(o.in.toks) * 4, name: ".toks"})
	g.rehome()
	if g.N() != 2 {
		t.Fatalf("guarded %d slices, want 2", g.N())
	}
	if string(o.in.buf[:5]) != "hello" || len(o.in.buf) != 1000 || cap(o.in.buf) != 1024 {
		t.Fatalf("contents/len/cap not preserved: %q %d %d", o.in.buf[:5], len(o.in.buf), cap(o.in.buf))
	}
	if z := g.Check(); z != "" {
		t.Fatalf("false alarm: %s", z)
	}
	// an 8-byte store starting 4 bytes before the end of the capacity
	full := o.in.buf[:cap(o.in.buf)]
	*(*uint64)(unsafe.Pointer(&full[len(full)-4])) = 0x1122334455667788
	if z := g.Check(); z != ".buf (after)" {
		t.Fatalf("overrun not detected: %q", z)
	}
}

func TestGuardsSkipAliasedSlices(t *testing.T) {
	back := make([]byte, 4096)
	a, b := back[:3000], back[1000:4096]
	g := &Guards{}
	g.cands = append(g.cands, candidate{hdr: (*sliceHeader)(unsafe.Pointer(&a)), n: cap(a), name: "a"}, candidate{hdr: (*sliceHeader)(unsafe.Pointer(&b)), n: cap(b), name: "b"})
	g.rehome()
	if g.N() != 0 || &a[1000] != &b[0] {
		t.Fatalf("aliased slices were re-homed")
	}
}

func TestFingerprintSeesPrivateState(t *testing.T) {
	// types of the harness itself are skipped by design; a standard library object stands in for a library instance
	var b bytes.Buffer
	b.WriteString("abc")
	f1 := Fingerprint(&b)
	b.ReadByte() // only the private read offset changes
	f2 := Fingerprint(&b)
	b.WriteString("d")
	f3 := Fingerprint(&b)
	if f1 == f2 || f2 == f3 {
		t.Fatalf("fingerprint blind to private state")
	}
	if Fingerprint(&b) != f3 {
		t.Fatalf("fingerprint not deterministic")
	}
}
