// Package env holds the environments the harness owns: destination sinks that
// can fail at a chosen call, and sources that deliver a byte string under a
// chosen schedule (chunking, short reads, EOF with data, errors, would-block).
package env

import (
	"errors"
	"fmt"
	"io"
	"sync"
)

// Sink is an io.Writer that records everything and can fail at its k-th call.
type Sink struct {
	Buf        []byte
	Calls      int
	FailAt     int   // 1-based call index to fail at; 0 = never
	FailErr    error // error returned by the failing call
	FailShort  bool  // failing call accepts len/2 bytes instead of 0
	FailAlways bool  // keep failing after FailAt
	Failed     bool
	CallsAfter int // calls received after the first failure
	BytesAfter int
	Sizes      []int
}

// Write implements io.Writer.
func (s *Sink) Write(p []byte) (int, error) {
	s.Calls++
	if s.Failed {
		s.CallsAfter++
		s.BytesAfter += len(p)
		if s.FailAlways {
			return 0, s.FailErr
		}
	}
	if s.FailAt != 0 && s.Calls == s.FailAt {
		s.Failed = true
		n := 0
		if s.FailShort {
			n = len(p) / 2
		}
		s.Buf = append(s.Buf, p[:n]...)
		return n, s.FailErr
	}
	s.Buf = append(s.Buf, p...)
	if len(s.Sizes) < 64 {
		s.Sizes = append(s.Sizes, len(p))
	}
	return len(p), nil
}

// NewErr makes a fresh error value with identity.
func NewErr(tag string) error { return &TagErr{tag} }

// TagErr is an error with pointer identity.
type TagErr struct{ Tag string }

func (e *TagErr) Error() string { return "injected:" + e.Tag }

// ---------------------------------------------------------------------------

// Spin is panicked by a source whose terminal answer (io.EOF or its error) has been ignored spinLimit times: a
// consumer that would loop forever, reported without a wall clock.
type Spin struct{ Calls int }

const spinLimit = 1000

// WouldBlock is panicked by a gated source when the Reader asks for bytes that
// have not been released: "blocks forever" without a wall clock.
type WouldBlock struct{ Off int }

// Decider lets the exploration engine choose per-call deviations.
type Decider interface {
	Deviate(n int, label string) int
}

// Terminal behaviours of a Source once its released bytes are delivered.
const (
	TermEOF  = iota // io.EOF
	TermErr         // Err
	TermGate        // would-block: panic(WouldBlock)
)

// Source serves Data[:Limit] under a delivery policy and then behaves as Term says.
type Source struct {
	Data       []byte
	Off        int
	Chunk      int   // default bytes per Read call; 0 = as many as fit
	Bounds     []int // stream offsets at which a delivery must end (no Read crosses one)
	ChunkAfter int   // Chunk applies only once Off >= ChunkAfter
	Limit      int   // bytes released; -1 = all of Data

	Term     int
	Err      error // for TermErr
	WithData bool  // the terminal EOF/Err accompanies the last data instead of coming alone

	// Deviations: at each of the first MaxDevCalls calls, alternative k>0 delivers Short[k-1] bytes.
	D           Decider
	Short       []int
	MaxDevCalls int

	Calls     int
	TermCalls int // calls answered with the terminal error/EOF
	ZeroReads int
}

// NewSource serves data fully with io.EOF at the end.
func NewSource(data []byte) *Source { return &Source{Data: data, Limit: -1} }

func (s *Source) end() int {
	if s.Limit >= 0 && s.Limit < len(s.Data) {
		return s.Limit
	}
	return len(s.Data)
}

func (s *Source) termErr() error {
	if s.Term == TermErr {
		return s.Err
	}
	return io.EOF
}

// Read implements io.Reader.
func (s *Source) Read(p []byte) (int, error) {
	s.Calls++
	if len(p) == 0 {
		s.ZeroReads++
		return 0, nil
	}
	end := s.end()
	if s.Off >= end {
		if s.Term == TermGate {
			panic(WouldBlock{s.Off})
		}
		s.TermCalls++
		if s.TermCalls > spinLimit {
			panic(Spin{s.TermCalls}) // the consumer keeps asking a source that has answered with its final error 1000 times
		}
		return 0, s.termErr()
	}
	n := end - s.Off
	if n > len(p) {
		n = len(p)
	}
	if s.Chunk > 0 && n > s.Chunk && s.Off >= s.ChunkAfter {
		n = s.Chunk
	}
	if s.Chunk > 0 && s.Off < s.ChunkAfter && s.Off+n > s.ChunkAfter {
		n = s.ChunkAfter - s.Off
	}
	for _, b := range s.Bounds {
		if b > s.Off && s.Off+n > b {
			n = b - s.Off
		}
	}
	if s.D != nil && s.Calls <= s.MaxDevCalls && len(s.Short) > 0 && n > 1 {
		// only offer short reads that really are shorter
		k := 0
		for k < len(s.Short) && s.Short[k] < n {
			k++
		}
		if k > 0 {
			c := s.D.Deviate(k+1, fmt.Sprintf("src.read#%d", s.Calls))
			if c > 0 {
				n = s.Short[c-1]
			}
		}
	}
	copy(p, s.Data[s.Off:s.Off+n])
	s.Off += n
	if s.Off >= end && s.WithData && s.Term != TermGate {
		s.TermCalls++
		return n, s.termErr()
	}
	return n, nil
}

// Rest returns the bytes not yet delivered.
func (s *Source) Rest() []byte { return s.Data[s.Off:] }

// ByteSource is a Source that also implements io.ByteReader (a "custom ByteReader").
type ByteSource struct{ Source }

// ReadByte implements io.ByteReader.
func (s *ByteSource) ReadByte() (byte, error) {
	var b [1]byte
	for {
		n, err := s.Source.Read(b[:])
		if n == 1 {
			return b[0], nil
		}
		if err != nil {
			return 0, err
		}
	}
}

// ErrNoProgress mirrors a reader that keeps returning (0, nil).
var ErrNoProgress = errors.New("no progress")

// ReadPolicy yields the destination buffer size for each Read call.
type ReadPolicy struct {
	Name  string
	Sizes []int // cycled
}

// Size returns the buffer size for call i (0-based).
func (p ReadPolicy) Size(i int) int { return p.Sizes[i%len(p.Sizes)] }

// Policies used across the reader-side checks.
var (
	PolicyAll  = ReadPolicy{"1MiB", []int{1 << 20}}
	Policy1    = ReadPolicy{"1", []int{1}}
	Policy7    = ReadPolicy{"7", []int{7}}
	Policy258  = ReadPolicy{"258", []int{258}}
	Policy4096 = ReadPolicy{"4096", []int{4096}}
	PolicyAlt  = ReadPolicy{"alt(1,65536)", []int{1, 65536}}
	// PolicyZero interleaves zero-length destination buffers (legal for an io.Reader: nothing may be lost, skipped or
	// reported early because of them)
	PolicyZero = ReadPolicy{"1,0", []int{1, 0}}
)

// ReadResult is what draining a reader produced.
type ReadResult struct {
	Out      []byte
	Err      error
	Calls    int
	Livelock bool   // 1000 consecutive (0,nil)
	Overflow bool   // more than max bytes
	BadCount string // a Read returned n outside [0,len(p)]
	Touched  bool   // bytes beyond p[:n] were modified... (not checked for data reads; see HandedOut)
}

const sentinel = 0xEE

// GetBuf / PutBuf pool read buffers by size.
var bufPools sync.Map // size -> *sync.Pool

func GetBuf(n int) []byte {
	p, _ := bufPools.LoadOrStore(n, &sync.Pool{})
	if b, ok := p.(*sync.Pool).Get().([]byte); ok {
		return b
	}
	return make([]byte, n)
}

func PutBuf(b []byte) {
	p, _ := bufPools.LoadOrStore(len(b), &sync.Pool{})
	p.(*sync.Pool).Put(b) //nolint
}

// Drain reads r to its first error with the given policy. Only p[:n] of each
// call counts as handed out; buffers are pre-filled with a sentinel.
func Drain(r io.Reader, pol ReadPolicy, max int) ReadResult {
	var res ReadResult
	zero := 0
	maxSz := 0
	for _, s := range pol.Sizes {
		if s > maxSz {
			maxSz = s
		}
	}
	buf := GetBuf(maxSz)
	defer PutBuf(buf)
	for {
		sz := pol.Size(res.Calls)
		p := buf[:sz]
		lim := sz
		if lim > 64 {
			lim = 64
		}
		for i := 0; i < lim; i++ {
			p[i] = sentinel
		}
		n, err := r.Read(p)
		res.Calls++
		if n < 0 || n > len(p) {
			res.BadCount = fmt.Sprintf("Read(len %d) returned n=%d", len(p), n)
			res.Err = err
			return res
		}
		res.Out = append(res.Out, p[:n]...)
		if err != nil {
			res.Err = err
			return res
		}
		if n == 0 {
			zero++
			if zero >= 1000 {
				res.Livelock = true
				return res
			}
		} else {
			zero = 0
		}
		if len(res.Out) > max {
			res.Overflow = true
			return res
		}
	}
}
