// Package synth builds DEFLATE bit streams block by block from a specification,
// valid or deliberately faulty: the input alphabet for the Reader-side checks.
package synth

import (
	"fmt"
	"sort"
)

// BitWriter writes LSB-first bit strings.
type BitWriter struct {
	buf  []byte
	nbit int
}

// Bits appends the n low bits of v, least significant first.
func (w *BitWriter) Bits(v uint32, n int) {
	for i := 0; i < n; i++ {
		if w.nbit&7 == 0 {
			w.buf = append(w.buf, 0)
		}
		if v>>uint(i)&1 != 0 {
			w.buf[len(w.buf)-1] |= 1 << uint(w.nbit&7)
		}
		w.nbit++
	}
}

// Huff appends a Huffman code (given MSB-first as in RFC 1951) of n bits.
func (w *BitWriter) Huff(code uint32, n int) {
	for i := n - 1; i >= 0; i-- {
		w.Bits(code>>uint(i)&1, 1)
	}
}

// Align pads with zero bits to a byte boundary.
func (w *BitWriter) Align() {
	for w.nbit&7 != 0 {
		w.Bits(0, 1)
	}
}

// Byte appends a whole byte (after Align).
func (w *BitWriter) Byte(b byte) { w.Bits(uint32(b), 8) }

// Len is the number of bits written.
func (w *BitWriter) Len() int { return w.nbit }

// Bytes returns the stream, zero-padded to a byte.
func (w *BitWriter) Bytes() []byte { return append([]byte{}, w.buf...) }

// Code is a canonical Huffman code.
type Code struct {
	Lens  []uint8
	codes []uint32
	Left  int // >0 incomplete, 0 complete, <0 over-subscribed
}

// NewCode assigns canonical codes to the lengths.
func NewCode(lens []uint8) *Code {
	c := &Code{Lens: append([]uint8{}, lens...), codes: make([]uint32, len(lens))}
	var count [16]int
	for _, l := range lens {
		count[l]++
	}
	count[0] = 0
	var next [17]uint32
	code := uint32(0)
	left := 1
	for l := 1; l <= 15; l++ {
		left = left<<1 - count[l]
		code = (code + uint32(count[l-1])) << 1
		next[l] = code
	}
	c.Left = left
	used := false
	for s, l := range lens {
		if l != 0 {
			c.codes[s] = next[l]
			next[l]++
			used = true
		}
	}
	if !used {
		c.Left = 0
	}
	return c
}

// Has reports whether sym has a code.
func (c *Code) Has(sym int) bool { return sym < len(c.Lens) && c.Lens[sym] != 0 }

// Emit writes the code of sym.
func (c *Code) Emit(w *BitWriter, sym int) {
	if !c.Has(sym) {
		panic(fmt.Sprintf("synth: symbol %d has no code", sym))
	}
	w.Huff(c.codes[sym], int(c.Lens[sym]))
}

// Unassigned returns a bit pattern (MSB-first code, length) that no symbol of an
// incomplete code owns and that is not a prefix of, nor prefixed by, any assigned code.
func (c *Code) Unassigned() (code uint32, n int, ok bool) {
	if c.Left <= 0 {
		return 0, 0, false
	}
	// the canonical construction leaves the numerically largest codes of the maximum length free
	max := 0
	for _, l := range c.Lens {
		if int(l) > max {
			max = int(l)
		}
	}
	if max == 0 {
		return 0, 0, false
	}
	return (1 << uint(max)) - 1, max, true
}

// ---------------------------------------------------------------------------
// length profiles

func ceilLog2(n int) int {
	l := 0
	for 1<<uint(l) < n {
		l++
	}
	return l
}

// Balanced returns complete code lengths for n symbols, all within one bit of each other, plus base.
func Balanced(n, base int) []uint8 {
	if n == 1 {
		return []uint8{uint8(base + 1)} // degenerate single code (incomplete when base == 0)
	}
	hi := ceilLog2(n)
	short := 1<<uint(hi) - n // symbols that get hi-1 bits
	out := make([]uint8, n)
	for i := range out {
		if i < short {
			out[i] = uint8(base + hi - 1)
		} else {
			out[i] = uint8(base + hi)
		}
	}
	return out
}

// Skew returns complete lengths for n symbols: the first k get 1,2,..,k, the rest share the last subtree.
func Skew(n, k int) []uint8 {
	if k > n-2 {
		k = n - 2
	}
	if k < 0 {
		k = 0
	}
	for k+ceilLog2(n-k) > 15 {
		k--
	}
	out := make([]uint8, 0, n)
	for i := 1; i <= k; i++ {
		out = append(out, uint8(i))
	}
	out = append(out, Balanced(n-k, k)...)
	return out
}

// Assign places lengths on the chosen symbols of an alphabet of the given size.
func Assign(size int, syms []int, lens []uint8) []uint8 {
	out := make([]uint8, size)
	for i, s := range syms {
		out[s] = lens[i]
	}
	return out
}

// ---------------------------------------------------------------------------
// symbols and blocks

// Sym is one element of a block's symbol sequence.
type Sym struct {
	Kind    int // SymLit, SymMatch, SymEOB, SymRaw, SymLitSym
	Lit     int // literal value, or raw lit/len symbol number for SymLitSym
	Len     int
	Dist    int
	Alt258  bool   // encode length 258 as symbol 284 + extra 31
	RawBits uint32 // SymRaw
	RawN    int
	DistSym int // SymMatchSym: explicit distance symbol (may be 30, 31)
	DistX   uint32
}

const (
	SymLit = iota
	SymMatch
	SymEOB
	SymRaw
	SymLenDistSym // explicit length symbol (Lit) and distance symbol (DistSym) with given extra bits
)

var lenBase = [29]int{3, 4, 5, 6, 7, 8, 9, 10, 11, 13, 15, 17, 19, 23, 27, 31, 35, 43, 51, 59, 67, 83, 99, 115, 131, 163, 195, 227, 258}
var lenExtra = [29]int{0, 0, 0, 0, 0, 0, 0, 0, 1, 1, 1, 1, 2, 2, 2, 2, 3, 3, 3, 3, 4, 4, 4, 4, 5, 5, 5, 5, 0}
var distBase = [30]int{1, 2, 3, 4, 5, 7, 9, 13, 17, 25, 33, 49, 65, 97, 129, 193, 257, 385, 513, 769, 1025, 1537, 2049, 3073, 4097, 6145, 8193, 12289, 16385, 24577}
var distExtra = [30]int{0, 0, 0, 0, 1, 1, 2, 2, 3, 3, 4, 4, 5, 5, 6, 6, 7, 7, 8, 8, 9, 9, 10, 10, 11, 11, 12, 12, 13, 13}

// LenSym returns the length symbol (257..285) and extra bits for a match length.
func LenSym(length int, alt258 bool) (sym int, extra uint32, n int) {
	if length == 258 && !alt258 {
		return 285, 0, 0
	}
	for i := 27; i >= 0; i-- {
		if length >= lenBase[i] {
			return 257 + i, uint32(length - lenBase[i]), lenExtra[i]
		}
	}
	panic("bad length")
}

// DistSym returns the distance symbol and extra bits.
func DistSym(d int) (sym int, extra uint32, n int) {
	for i := 29; i >= 0; i-- {
		if d >= distBase[i] {
			return i, uint32(d - distBase[i]), distExtra[i]
		}
	}
	panic("bad distance")
}

// DistRange returns the first and last distance of a distance symbol.
func DistRange(sym int) (int, int) { return distBase[sym], distBase[sym] + 1<<uint(distExtra[sym]) - 1 }

// LenRange returns the first and last length of a length symbol 257..285.
func LenRange(sym int) (int, int) {
	i := sym - 257
	if i == 28 {
		return 258, 258
	}
	if i == 27 {
		return 227, 257 // 284 + extra 31 would be the alternative encoding of 258
	}
	return lenBase[i], lenBase[i] + 1<<uint(lenExtra[i]) - 1
}

// Header encodings of the code length list.
const (
	EncPlain   = iota // no repeat codes at all
	EncRepeat         // maximal use of 16/17/18, runs may cross the literal/distance boundary
	EncNoCross        // repeats, but never across the boundary
	EncOdd            // legal but unusual: zero runs written as 18/17/explicit 0 followed by 16-repeats of the zero
)

// Block is the specification of one block.
type Block struct {
	Final bool
	Type  int // 0 stored, 1 fixed, 2 dynamic, 3 reserved

	Stored     []byte
	BadNLen    bool    // stored: corrupt the one's complement
	LitLens    []uint8 // dynamic: lengths for symbols 0..len-1 (len = HLIT+257, 257..286; longer is emitted as is)
	DistLens   []uint8 // dynamic: 1..30 entries
	Enc        int
	FullHCLen  bool // send all 19 code length code lengths
	Syms       []Sym
	NoEOB      bool
	CLOverride []uint8 // explicit code-length-code lengths (19 entries), e.g. over-subscribed
	// RawCL, when non-nil, replaces the run-length coded length list: pairs (symbol, extra value)
	RawCL  [][2]int
	HLit   int // explicit HLIT/HDIST field values when >= 0 and ForceH is set
	HDist  int
	ForceH bool
}

type clItem struct {
	sym   int
	extra uint32
	n     int
}

func rle(lens []uint8, enc int, boundary int) []clItem {
	var out []clItem
	emitRun := func(seg []uint8) {
		i := 0
		for i < len(seg) {
			v := seg[i]
			j := i
			for j < len(seg) && seg[j] == v {
				j++
			}
			run := j - i
			if enc == EncPlain {
				for ; i < j; i++ {
					out = append(out, clItem{sym: int(v)})
				}
				continue
			}
			if v == 0 && enc == EncOdd && run >= 4 {
				// the first zeros with 18 (11), 17 (3) or an explicit 0, the rest as "repeat previous length"
				switch {
				case run >= 14:
					out = append(out, clItem{18, 0, 7})
					run -= 11
				case run >= 6:
					out = append(out, clItem{17, 0, 3})
					run -= 3
				default:
					out = append(out, clItem{sym: 0})
					run--
				}
				for run >= 3 {
					r := run
					if r > 6 {
						r = 6
					}
					if run-r > 0 && run-r < 3 {
						r = run - 3 // keep at least 3 for the last repeat
						if r < 3 {
							r = 3
						}
					}
					out = append(out, clItem{16, uint32(r - 3), 2})
					run -= r
				}
				for ; run > 0; run-- {
					out = append(out, clItem{sym: 0})
				}
			} else if v == 0 {
				for run >= 11 {
					r := run
					if r > 138 {
						r = 138
					}
					out = append(out, clItem{18, uint32(r - 11), 7})
					run -= r
				}
				if run >= 3 {
					out = append(out, clItem{17, uint32(run - 3), 3})
					run = 0
				}
				for ; run > 0; run-- {
					out = append(out, clItem{sym: 0})
				}
			} else {
				out = append(out, clItem{sym: int(v)})
				run--
				for run >= 3 {
					r := run
					if r > 6 {
						r = 6
					}
					out = append(out, clItem{16, uint32(r - 3), 2})
					run -= r
				}
				for ; run > 0; run-- {
					out = append(out, clItem{sym: int(v)})
				}
			}
			i = j
		}
	}
	if enc == EncNoCross {
		emitRun(lens[:boundary])
		emitRun(lens[boundary:])
	} else {
		emitRun(lens)
	}
	return out
}

var clOrder = [19]int{16, 17, 18, 0, 8, 7, 9, 6, 10, 5, 11, 4, 12, 3, 13, 2, 14, 1, 15}

// FixedLit / FixedDist are the fixed codes of RFC 1951 (288 / 32 symbols).
var FixedLit, FixedDist *Code

func init() {
	l := make([]uint8, 288)
	for i := range l {
		switch {
		case i < 144:
			l[i] = 8
		case i < 256:
			l[i] = 9
		case i < 280:
			l[i] = 7
		default:
			l[i] = 8
		}
	}
	FixedLit = NewCode(l)
	d := make([]uint8, 32)
	for i := range d {
		d[i] = 5
	}
	FixedDist = NewCode(d)
}

// Codes returns the literal/length and distance codes a block uses.
func (b *Block) Codes() (*Code, *Code) {
	if b.Type == 1 {
		return FixedLit, FixedDist
	}
	return NewCode(b.LitLens), NewCode(b.DistLens)
}

// WriteHeader writes the block header (everything before the symbols / stored bytes).
func (b *Block) WriteHeader(w *BitWriter) {
	f := uint32(0)
	if b.Final {
		f = 1
	}
	w.Bits(f, 1)
	w.Bits(uint32(b.Type), 2)
	switch b.Type {
	case 0:
		w.Align()
		n := uint32(len(b.Stored))
		nn := ^n & 0xffff
		if b.BadNLen {
			nn ^= 0x0100
		}
		w.Bits(n, 16)
		w.Bits(nn, 16)
	case 2:
		hlit := len(b.LitLens) - 257
		hdist := len(b.DistLens) - 1
		if b.ForceH {
			hlit, hdist = b.HLit, b.HDist
		}
		var items []clItem
		if b.RawCL != nil {
			for _, r := range b.RawCL {
				it := clItem{sym: r[0]}
				switch r[0] {
				case 16:
					it.extra, it.n = uint32(r[1]), 2
				case 17:
					it.extra, it.n = uint32(r[1]), 3
				case 18:
					it.extra, it.n = uint32(r[1]), 7
				}
				items = append(items, it)
			}
		} else {
			all := append(append([]uint8{}, b.LitLens...), b.DistLens...)
			items = rle(all, b.Enc, len(b.LitLens))
		}
		cl := b.CLOverride
		if cl == nil {
			used := map[int]bool{}
			for _, it := range items {
				used[it.sym] = true
			}
			var syms []int
			for s := range used {
				syms = append(syms, s)
			}
			sort.Ints(syms)
			if len(syms) == 1 {
				// a second dummy symbol keeps the code complete
				for s := 0; s < 19; s++ {
					if !used[s] {
						syms = append(syms, s)
						break
					}
				}
				sort.Ints(syms)
			}
			cl = Assign(19, syms, Balanced(len(syms), 0))
		}
		clc := NewCode(cl)
		hclen := 19
		if !b.FullHCLen {
			for hclen > 4 && cl[clOrder[hclen-1]] == 0 {
				hclen--
			}
		}
		w.Bits(uint32(hlit), 5)
		w.Bits(uint32(hdist), 5)
		w.Bits(uint32(hclen-4), 4)
		for i := 0; i < hclen; i++ {
			w.Bits(uint32(cl[clOrder[i]]), 3)
		}
		for _, it := range items {
			if !clc.Has(it.sym) {
				panic(fmt.Sprintf("synth: code length symbol %d has no code (override too narrow)", it.sym))
			}
			clc.Emit(w, it.sym)
			if it.n > 0 {
				w.Bits(it.extra, it.n)
			}
		}
	}
}

// WriteBody writes the symbols (or the stored payload).
func (b *Block) WriteBody(w *BitWriter) {
	if b.Type == 0 {
		for _, c := range b.Stored {
			w.Byte(c)
		}
		return
	}
	if b.Type == 3 {
		return
	}
	lit, dist := b.Codes()
	for _, s := range b.Syms {
		switch s.Kind {
		case SymLit:
			lit.Emit(w, s.Lit)
		case SymEOB:
			lit.Emit(w, 256)
		case SymRaw:
			w.Bits(s.RawBits, s.RawN)
		case SymMatch:
			ls, lx, ln := LenSym(s.Len, s.Alt258)
			lit.Emit(w, ls)
			w.Bits(lx, ln)
			ds, dx, dn := DistSym(s.Dist)
			dist.Emit(w, ds)
			w.Bits(dx, dn)
		case SymLenDistSym:
			lit.Emit(w, s.Lit)
			if s.Lit >= 257 && s.Lit <= 285 {
				w.Bits(uint32(s.Len), lenExtra[s.Lit-257])
			}
			dist.Emit(w, s.DistSym)
			if s.DistSym < 30 {
				w.Bits(s.DistX, distExtra[s.DistSym])
			}
		}
	}
	if !b.NoEOB {
		lit.Emit(w, 256)
	}
}

// Build concatenates blocks into a stream.
func Build(blocks ...Block) []byte {
	w := &BitWriter{}
	for i := range blocks {
		blocks[i].WriteHeader(w)
		blocks[i].WriteBody(w)
	}
	return w.Bytes()
}

// BuildTo writes blocks into an existing writer (to continue with raw bits afterwards).
func BuildTo(w *BitWriter, blocks ...Block) {
	for i := range blocks {
		blocks[i].WriteHeader(w)
		blocks[i].WriteBody(w)
	}
}

// Expand returns the bytes a symbol sequence produces after the given history.
func Expand(hist []byte, syms []Sym) []byte {
	out := append([]byte{}, hist...)
	for _, s := range syms {
		switch s.Kind {
		case SymLit:
			out = append(out, byte(s.Lit))
		case SymMatch:
			for i := 0; i < s.Len; i++ {
				out = append(out, out[len(out)-s.Dist])
			}
		}
	}
	return out[len(hist):]
}
