package synth

import (
	"bytes"
	"compress/flate"
	"io"
	"testing"

	"github.com/intel/fastgo/verif/refinflate"
)

func TestCatalogueAgainstStdlib(t *testing.T) {
	hist := []byte{}
	n := 0
	for _, ls := range LitShapes() {
		for _, ds := range DistShapes() {
			for enc := 0; enc < 4; enc++ {
				lit, dist := NewCode(ls.Lens), NewCode(ds.Lens)
				alpha := SeqAlphabet(lit, dist)
				var syms []Sym
				// a literal prefix so matches have history
				for _, a := range alpha {
					if a.Kind == SymLit {
						for i := 0; i < 3; i++ {
							syms = append(syms, a)
						}
					}
				}
				produced := len(Expand(hist, syms))
				for _, a := range alpha {
					if a.Kind == SymMatch && a.Dist <= produced {
						syms = append(syms, a)
						produced += a.Len
					}
				}
				b := Block{Final: true, Type: 2, LitLens: ls.Lens, DistLens: ds.Lens, Enc: enc, Syms: syms}
				stream := Build(b)
				want := Expand(nil, syms)
				got, err := io.ReadAll(flate.NewReader(bytes.NewReader(stream)))
				res := refinflate.Inflate(stream, refinflate.Options{})
				if res.Err != nil || !bytes.Equal(res.Out, want) {
					t.Fatalf("%s/%s enc%d: ref: %v out=%d want=%d", ls.Name, ds.Name, enc, res.Err, len(res.Out), len(want))
				}
				if res.EndByte != len(stream) {
					t.Fatalf("%s/%s: ref end %d of %d", ls.Name, ds.Name, res.EndByte, len(stream))
				}
				if err != nil {
					t.Logf("%s/%s enc%d: stdlib rejects: %v (lit left %d, dist left %d)", ls.Name, ds.Name, enc, err, lit.Left, dist.Left)
					continue
				}
				if !bytes.Equal(got, want) {
					t.Fatalf("%s/%s: stdlib differs", ls.Name, ds.Name)
				}
				n++
			}
		}
	}
	t.Logf("%d combinations accepted by stdlib", n)
}
