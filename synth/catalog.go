package synth

import "fmt"

// Shape is a named pair of code-length vectors for a dynamic block.
type LitShape struct {
	Name string
	Lens []uint8 // 257..286 entries
}

type DistShape struct {
	Name string
	Lens []uint8 // 1..30 entries
}

func trimLit(l []uint8) []uint8 {
	n := len(l)
	for n > 257 && l[n-1] == 0 {
		n--
	}
	return l[:n]
}

func trimDist(l []uint8) []uint8 {
	n := len(l)
	for n > 1 && l[n-1] == 0 {
		n--
	}
	return l[:n]
}

func seq(a, b int) []int {
	var o []int
	for i := a; i <= b; i++ {
		o = append(o, i)
	}
	return o
}

// LitShapes is the literal/length code catalogue (all complete, or the accepted degenerate single code).
func LitShapes() []LitShape {
	var out []LitShape
	add := func(name string, syms []int, lens []uint8, full bool) {
		v := Assign(286, syms, lens)
		if !full {
			v = trimLit(v)
		}
		out = append(out, LitShape{name, v})
	}
	all := seq(0, 285)
	add("flat", all, Balanced(286, 0), true)
	// small alphabet: 'a','b', EOB, len 3, len 4, len 11-12, len 258
	small := []int{'a', 'b', 256, 257, 258, 265, 285}
	add("small-balanced", small, Balanced(len(small), 0), false)
	// skew: 1,2,...: a 1-bit code beside 15-bit codes
	sk := append([]int{'a'}, 'b', 257, 'c', 'd', 'e', 'f', 'g', 'h', 'i', 'j', 'k', 'l', 'm', 256, 285)
	add("skew15", sk, Skew(len(sk), 15), false)
	// EOB short, literals long (and the reverse order of lengths)
	sk2 := []int{256, 285, 'z', 'y', 'x', 'w', 'v', 'u', 't', 's', 'r', 'q', 'p', 'o', 257, 'a'}
	add("skew15-eob-short", sk2, Skew(len(sk2), 15), false)
	add("two", []int{'a', 256}, []uint8{1, 1}, false)
	add("single-eob", []int{256}, []uint8{1}, false)
	// all 29 length symbols plus a few literals
	ls := append([]int{'a', 'b', 256}, seq(257, 285)...)
	add("lens", ls, Balanced(len(ls), 0), true)
	// cluster: 9 short codes then 60 symbols with 14/15-bit codes sharing 12-bit prefixes
	cl := append([]int{'a', 'b', 'c', 256, 257, 258, 285, 'd', 'e'}, seq(0, 59)...)
	add("cluster13", cl, Skew(len(cl), 9), false)
	// 13-bit boundary: codes of exactly 12 and 13 bits
	c12 := append([]int{'a', 256, 257}, seq(100, 100+510)...)
	_ = c12
	// maximum bit consumption: literals with 1..14-bit codes, end-of-block and the length symbols with 5 extra bits at 15 bits
	mb := append(seq('a', 'a'+12), 256, 284, 283)
	add("maxbits", mb, Skew(len(mb), 15), false)
	m := append([]int{}, seq(0, 255)...)
	m = append(m, 256, 257, 285)
	add("skew-all-literals", m, Skew(len(m), 6), false)
	// untrimmed variants (HLIT = 29 with trailing zero lengths): with run-length coded headers the zero run of the
	// unused length codes crosses the literal/distance boundary when the distance code starts with unused symbols
	add("small-balanced-untrimmed", small, Balanced(len(small), 0), true)
	add("two-untrimmed", []int{'a', 256}, []uint8{1, 1}, true)
	return out
}

// DistShapes is the distance code catalogue.
func DistShapes() []DistShape {
	var out []DistShape
	add := func(name string, syms []int, lens []uint8) {
		out = append(out, DistShape{name, trimDist(Assign(30, syms, lens))})
	}
	out = append(out, DistShape{"none", []uint8{0}})
	add("single0", []int{0}, []uint8{1})
	add("single29", []int{29}, []uint8{1})
	add("two", []int{0, 1}, []uint8{1, 1})
	add("flat5", seq(0, 29), Balanced(30, 0))
	sk := []int{0, 1, 2, 3, 4, 8, 16, 29, 28, 20, 10, 5, 6, 7, 9, 11}
	add("skew15", sk, Skew(len(sk), 15))
	add("cluster11", seq(0, 29), Skew(30, 7))
	// maximum bit consumption: the two distance symbols with 13 extra bits get the 15-bit codes
	add("maxbits", append(seq(0, 13), 28, 29), Skew(16, 15))
	return out
}

// Incomplete derives faulty variants of a length vector by dropping one code.
func Incomplete(lens []uint8, keep int) (out [][]uint8, names []string) {
	short, long := -1, -1
	for i, l := range lens {
		if l == 0 || i == keep {
			continue
		}
		if short < 0 || l < lens[short] {
			short = i
		}
		if long < 0 || l >= lens[long] {
			long = i
		}
	}
	seen := map[int]bool{}
	for _, d := range []int{short, long} {
		if d < 0 || seen[d] {
			continue
		}
		seen[d] = true
		v := append([]uint8{}, lens...)
		v[d] = 0
		out = append(out, v)
		names = append(names, fmt.Sprintf("drop-sym%d(len%d)", d, lens[d]))
	}
	return
}

// SeqAlphabet returns the small symbol alphabet used for exhaustive sequences
// over a given pair of codes: literals with the shortest and longest code and
// the matches the codes can express. produced is the number of bytes available
// as history before the first symbol (matches need it).
func SeqAlphabet(lit, dist *Code) []Sym {
	var out []Sym
	shortest, longest := -1, -1
	for s := 0; s < 256 && s < len(lit.Lens); s++ {
		if lit.Lens[s] == 0 {
			continue
		}
		if shortest < 0 || lit.Lens[s] < lit.Lens[shortest] {
			shortest = s
		}
		if longest < 0 || lit.Lens[s] >= lit.Lens[longest] {
			longest = s
		}
	}
	if shortest >= 0 {
		out = append(out, Sym{Kind: SymLit, Lit: shortest})
	}
	if longest >= 0 && longest != shortest {
		out = append(out, Sym{Kind: SymLit, Lit: longest})
	}
	// matches built from the symbols the codes really have: the length symbols with the shortest and the longest
	// code (first length of the one, last length = maximal extra bits of the other) x the distance symbols with the
	// shortest and the longest code (first distance of the one, last distance of the other)
	pick := func(c *Code, lo, hi int) (short, long int) {
		short, long = -1, -1
		for s := lo; s <= hi && s < len(c.Lens); s++ {
			if c.Lens[s] == 0 {
				continue
			}
			if short < 0 || c.Lens[s] < c.Lens[short] {
				short = s
			}
			if long < 0 || c.Lens[s] >= c.Lens[long] {
				long = s
			}
		}
		return
	}
	ls, ll := pick(lit, 257, 285)
	ds, dl := pick(dist, 0, 29)
	if ls >= 0 && ds >= 0 {
		l1, _ := LenRange(ls)
		_, l2 := LenRange(ll)
		d1, _ := DistRange(ds)
		_, d2 := DistRange(dl)
		if d2 > 32768 {
			d2 = 32768
		}
		seen := map[[2]int]bool{}
		for _, m := range [][2]int{{l1, d1}, {l2, d2}, {l1, d2}, {l2, d1}} {
			if !seen[m] {
				seen[m] = true
				out = append(out, Sym{Kind: SymMatch, Len: m[0], Dist: m[1]})
			}
		}
	}
	return out
}

// SymString renders a symbol.
func SymString(s Sym) string {
	switch s.Kind {
	case SymLit:
		return fmt.Sprintf("lit(%d)", s.Lit)
	case SymMatch:
		a := ""
		if s.Alt258 {
			a = "alt"
		}
		return fmt.Sprintf("match%s(%d,%d)", a, s.Len, s.Dist)
	case SymEOB:
		return "eob"
	case SymRaw:
		return fmt.Sprintf("raw(%d bits:%x)", s.RawN, s.RawBits)
	case SymLenDistSym:
		return fmt.Sprintf("lensym(%d,x%d)/distsym(%d,x%d)", s.Lit, s.Len, s.DistSym, s.DistX)
	}
	return "?"
}
