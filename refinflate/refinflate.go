// Package refinflate is an independent reference inflater written straight from
// RFC 1951: table-free canonical-code decoding (count/offset arrays, one bit at
// a time), no shared code with fastgo or with compress/flate. It is permissive
// about incomplete codes by default (only *using* an unassigned code is an error)
// and reports the exact structure of what it decoded.
package refinflate

import "fmt"

// Block describes one decoded block.
type Block struct {
	Type       int // 0 stored, 1 fixed, 2 dynamic
	Final      bool
	StartBit   int64 // bit offset of the BFINAL bit
	DataBit    int64 // first bit after the header
	EndBit     int64 // first bit after the block
	OutStart   int
	OutEnd     int
	LitLens    []uint8
	DistLens   []uint8
	Symbols    int
	Matches    int
	DistHist   [30]int // matches per distance symbol (informational)
	Incomplete bool // a code of this block is incomplete
}

// Result is what the reference saw.
type Result struct {
	Out       []byte
	EndBit    int64 // first bit after the final block (valid when Err == nil)
	EndByte   int   // bytes consumed = ceil(EndBit/8)
	Blocks    []Block
	MaxDist   int
	Err       error
	Kind      string // "" | "truncated" | defect class
	ErrBit    int64
	Truncated bool // input ran out before any defect was seen
	// AtBoundary: input ran out exactly at a byte-aligned block boundary after a non-final block.
	AtBoundary bool
	Strict     bool
}

// Options control the reference.
type Options struct {
	Dict   []byte
	Strict bool // additionally reject incomplete codes the way compress/flate does
	MaxOut int  // 0 = 1<<30
}

type defect struct {
	kind string
	bit  int64
}

func (d defect) Error() string { return fmt.Sprintf("refinflate: %s at bit %d", d.kind, d.bit) }

type trunc struct{}

type st struct {
	in   []byte
	pos  int64 // bit position
	out  []byte
	dlen int // dictionary length at the front of out
	res  *Result
	opt  Options
}

func (s *st) bit() int {
	if s.pos>>3 >= int64(len(s.in)) {
		panic(trunc{})
	}
	b := int(s.in[s.pos>>3]>>(uint(s.pos)&7)) & 1
	s.pos++
	return b
}

func (s *st) bits(n int) int {
	v := 0
	for i := 0; i < n; i++ {
		v |= s.bit() << uint(i)
	}
	return v
}

type code struct {
	count  [16]int
	symbol []int
	used   bool // at least one code assigned
}

// build returns left: >0 incomplete, 0 complete, <0 over-subscribed.
func build(lens []uint8) (*code, int) {
	c := &code{symbol: make([]int, len(lens))}
	for _, l := range lens {
		c.count[l]++
	}
	if c.count[0] == len(lens) {
		return c, 0
	}
	c.used = true
	left := 1
	for l := 1; l <= 15; l++ {
		left <<= 1
		left -= c.count[l]
		if left < 0 {
			return c, left
		}
	}
	var offs [16]int
	for l := 1; l < 15; l++ {
		offs[l+1] = offs[l] + c.count[l]
	}
	for sym, l := range lens {
		if l != 0 {
			c.symbol[offs[l]] = sym
			offs[l]++
		}
	}
	return c, left
}

// decode returns the symbol or -1 for an unassigned code.
func (s *st) decode(c *code) int {
	code, first, index := 0, 0, 0
	for l := 1; l <= 15; l++ {
		code |= s.bit()
		cnt := c.count[l]
		if code-cnt < first {
			return c.symbol[index+(code-first)]
		}
		index += cnt
		first += cnt
		first <<= 1
		code <<= 1
	}
	return -1
}

var lenBase = [29]int{3, 4, 5, 6, 7, 8, 9, 10, 11, 13, 15, 17, 19, 23, 27, 31, 35, 43, 51, 59, 67, 83, 99, 115, 131, 163, 195, 227, 258}
var lenExtra = [29]int{0, 0, 0, 0, 0, 0, 0, 0, 1, 1, 1, 1, 2, 2, 2, 2, 3, 3, 3, 3, 4, 4, 4, 4, 5, 5, 5, 5, 0}
var distBase = [30]int{1, 2, 3, 4, 5, 7, 9, 13, 17, 25, 33, 49, 65, 97, 129, 193, 257, 385, 513, 769, 1025, 1537, 2049, 3073, 4097, 6145, 8193, 12289, 16385, 24577}
var distExtra = [30]int{0, 0, 0, 0, 1, 1, 2, 2, 3, 3, 4, 4, 5, 5, 6, 6, 7, 7, 8, 8, 9, 9, 10, 10, 11, 11, 12, 12, 13, 13}
var clOrder = [19]int{16, 17, 18, 0, 8, 7, 9, 6, 10, 5, 11, 4, 12, 3, 13, 2, 14, 1, 15}

// LenBase etc. are exported for the synthesiser.
func LenBase(i int) (int, int)  { return lenBase[i], lenExtra[i] }
func DistBase(i int) (int, int) { return distBase[i], distExtra[i] }

var fixedLit, fixedDist *code

func init() {
	l := make([]uint8, 288)
	for i := range l {
		switch {
		case i < 144:
			l[i] = 8
		case i < 256:
			l[i] = 9
		case i < 280:
			l[i] = 7
		default:
			l[i] = 8
		}
	}
	fixedLit, _ = build(l)
	d := make([]uint8, 30)
	for i := range d {
		d[i] = 5
	}
	// the fixed distance code has 32 5-bit codes; 30 and 31 are invalid: model as 32 symbols
	d32 := make([]uint8, 32)
	for i := range d32 {
		d32[i] = 5
	}
	fixedDist, _ = build(d32)
}

func (s *st) fail(kind string, bit int64) {
	panic(defect{kind, bit})
}

func (s *st) codes(lit, dist *code, blk *Block) {
	maxOut := s.opt.MaxOut
	if maxOut == 0 {
		maxOut = 1 << 30
	}
	for {
		at := s.pos
		sym := s.decode(lit)
		blk.Symbols++
		switch {
		case sym < 0:
			s.fail("unassigned-lit", at)
		case sym < 256:
			s.out = append(s.out, byte(sym))
		case sym == 256:
			return
		default:
			sym -= 257
			if sym >= 29 {
				s.fail("invalid-len-sym", at)
			}
			length := lenBase[sym] + s.bits(lenExtra[sym])
			dat := s.pos
			if !dist.used {
				// a length symbol with no distance code at all
				s.bit() // make truncation take precedence like every decoder that reads a bit first
				s.fail("unassigned-dist", dat)
			}
			ds := s.decode(dist)
			if ds < 0 {
				s.fail("unassigned-dist", dat)
			}
			if ds >= 30 {
				s.fail("invalid-dist-sym", dat)
			}
			d := distBase[ds] + s.bits(distExtra[ds])
			if d > len(s.out) {
				s.fail("dist-too-far", dat)
			}
			if d > 32768 {
				s.fail("dist-too-far", dat)
			}
			if d > s.res.MaxDist {
				s.res.MaxDist = d
			}
			blk.Matches++
			blk.DistHist[ds]++
			for i := 0; i < length; i++ {
				s.out = append(s.out, s.out[len(s.out)-d])
			}
		}
		if len(s.out)-s.dlen > maxOut {
			s.fail("output-limit", s.pos)
		}
	}
}

func (s *st) dynamic(blk *Block) (*code, *code) {
	at := s.pos
	nlen := s.bits(5) + 257
	ndist := s.bits(5) + 1
	ncode := s.bits(4) + 4
	if nlen > 286 {
		s.fail("hlit", at)
	}
	if ndist > 30 {
		s.fail("hdist", at)
	}
	var cl [19]uint8
	for i := 0; i < ncode; i++ {
		cl[clOrder[i]] = uint8(s.bits(3))
	}
	clc, left := build(cl[:])
	if left < 0 {
		s.fail("oversubscribed-cl", at)
	}
	if s.opt.Strict && left > 0 && !(clc.count[1] == 1 && clc.count[0] == 18) {
		s.fail("incomplete-cl", at)
	}
	if left > 0 {
		blk.Incomplete = true
	}
	lens := make([]uint8, nlen+ndist)
	for i := 0; i < nlen+ndist; {
		sat := s.pos
		if !clc.used {
			s.bit()
			s.fail("unassigned-cl", sat)
		}
		sym := s.decode(clc)
		switch {
		case sym < 0:
			s.fail("unassigned-cl", sat)
		case sym < 16:
			lens[i] = uint8(sym)
			i++
		default:
			var prev uint8
			var rep int
			switch sym {
			case 16:
				if i == 0 {
					s.bits(2)
					s.fail("bad-repeat", sat)
				}
				prev = lens[i-1]
				rep = 3 + s.bits(2)
			case 17:
				rep = 3 + s.bits(3)
			default:
				rep = 11 + s.bits(7)
			}
			if i+rep > nlen+ndist {
				s.fail("run-overflow", sat)
			}
			for ; rep > 0; rep-- {
				lens[i] = prev
				i++
			}
		}
	}
	if lens[256] == 0 && s.opt.Strict {
		// A block without an end-of-block code can never terminate. compress/flate does not reject it at the
		// header but decodes its symbols until it runs into something else; the permissive reference does the same,
		// so that bytes handed out by either kind of inflater count as "produced by a reference inflater".
		s.fail("no-eob", at)
	}
	blk.LitLens = append([]uint8{}, lens[:nlen]...)
	blk.DistLens = append([]uint8{}, lens[nlen:]...)
	lit, left := build(lens[:nlen])
	if left < 0 {
		s.fail("oversubscribed-lit", at)
	}
	if left > 0 {
		blk.Incomplete = true
		if s.opt.Strict && !(lit.count[1] == 1 && nlen-lit.count[0] == 1) {
			s.fail("incomplete-lit", at)
		}
	}
	dist, left := build(lens[nlen:])
	if left < 0 {
		s.fail("oversubscribed-dist", at)
	}
	if left > 0 {
		blk.Incomplete = true
		if s.opt.Strict && !(dist.count[1] == 1 && ndist-dist.count[0] == 1) {
			s.fail("incomplete-dist", at)
		}
	}
	return lit, dist
}

// Inflate decodes in from its first bit.
func Inflate(in []byte, opt Options) (res *Result) {
	res = &Result{Strict: opt.Strict}
	s := &st{in: in, res: res, opt: opt}
	s.out = append(s.out, opt.Dict...)
	s.dlen = len(opt.Dict)
	defer func() {
		res.Out = s.out[s.dlen:]
		if r := recover(); r != nil {
			switch d := r.(type) {
			case trunc:
				res.Truncated = true
				res.Kind = "truncated"
				res.ErrBit = int64(len(in)) * 8
				res.Err = fmt.Errorf("refinflate: input ends inside the stream")
				if n := len(res.Blocks); n > 0 && s.pos == res.Blocks[n-1].EndBit && s.pos&7 == 0 {
					res.AtBoundary = true
				}
			case defect:
				res.Kind = d.kind
				res.ErrBit = d.bit
				res.Err = d
			default:
				panic(r)
			}
		}
	}()
	for {
		blk := Block{StartBit: s.pos, OutStart: len(s.out) - s.dlen}
		blk.Final = s.bit() == 1
		blk.Type = s.bits(2)
		switch blk.Type {
		case 0:
			for s.pos&7 != 0 {
				s.pos++
			}
			at := s.pos
			n := s.bits(16)
			nn := s.bits(16)
			if n != (^nn)&0xffff {
				s.fail("stored-len", at)
			}
			blk.DataBit = s.pos
			for i := 0; i < n; i++ {
				if s.pos>>3 >= int64(len(in)) {
					panic(trunc{})
				}
				s.out = append(s.out, in[s.pos>>3])
				s.pos += 8
			}
		case 1:
			blk.DataBit = s.pos
			s.codes(fixedLit, fixedDist, &blk)
		case 2:
			lit, dist := s.dynamic(&blk)
			blk.DataBit = s.pos
			s.codes(lit, dist, &blk)
		default:
			s.fail("reserved-btype", blk.StartBit)
		}
		blk.EndBit = s.pos
		blk.OutEnd = len(s.out) - s.dlen
		res.Blocks = append(res.Blocks, blk)
		if blk.Final {
			break
		}
	}
	res.EndBit = s.pos
	res.EndByte = int((s.pos + 7) >> 3)
	return res
}
