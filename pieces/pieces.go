// Package pieces is the compressor-side data alphabet: deterministic content
// generators aimed at the internal thresholds of the fastgo compressor (input
// buffer fill, block token cap, output buffer, 16-bit position wrap, header
// run-length coder, length-limited Huffman codes).
package pieces

import "fmt"

// Thresholds read off the code. They only aim inputs; no oracle depends on them.
const (
	T32 = 2*32768 + 258 // buffer-full trigger, 32 KiB window
	T4  = 2*4096 + 258  // buffer-full trigger, 4 KiB window
	HB  = 65536         // Huffman-only block
)

type rng struct{ s uint64 }

func (r *rng) next() uint64 {
	r.s ^= r.s << 13
	r.s ^= r.s >> 7
	r.s ^= r.s << 17
	return r.s
}

func newRng(seed uint64) *rng {
	if seed == 0 {
		seed = 0x9E3779B97F4A7C15
	}
	return &rng{seed*0x2545F4914F6CDD1D + 0x1234567}
}

// Rand is incompressible filler.
func Rand(n int, seed uint64) []byte {
	r := newRng(seed)
	b := make([]byte, n)
	for i := 0; i < n; i += 8 {
		v := r.next()
		for j := 0; j < 8 && i+j < n; j++ {
			b[i+j] = byte(v >> (8 * uint(j)))
		}
	}
	return b
}

// Zero is a run of one byte value.
func Zero(n int, v byte) []byte {
	b := make([]byte, n)
	for i := range b {
		b[i] = v
	}
	return b
}

// R3 is a 3-bit alphabet stream: many short matches, skewed codes.
func R3(n int, seed uint64) []byte {
	r := newRng(seed ^ 0x33)
	b := make([]byte, n)
	for i := range b {
		b[i] = "abcdefgh"[r.next()&7]
	}
	return b
}

var words = []string{"the ", "quick ", "brown ", "fox ", "jumps ", "over ", "lazy ", "dog ", "compress", "ion ", "deflate ", "stream ", "\n", "0123456789", "of ", "and ", "a ", "to ", "in ", "is ", "Huffman ", "window ", "xyzzy "}

// Text is word soup: mixed literals and matches.
func Text(n int, seed uint64) []byte {
	r := newRng(seed ^ 0x7e47)
	b := make([]byte, 0, n+16)
	for len(b) < n {
		b = append(b, words[r.next()%uint64(len(words))]...)
	}
	return b[:n]
}

// Per is a sequence with exact period p (the first p bytes are pseudo-random and distinct-ish).
func Per(n, p int, seed uint64) []byte {
	base := Rand(p, seed^uint64(p)*77)
	b := make([]byte, n)
	for i := range b {
		b[i] = base[i%p]
	}
	return b
}

// Far is incompressible filler in which a block of blen bytes placed at off is
// repeated exactly d bytes later and nowhere nearer.
func Far(n, off, d, blen int, seed uint64) []byte {
	b := Rand(n, seed^0xfa4)
	if off+d+blen <= n {
		copy(b[off+d:off+d+blen], b[off:off+blen])
	}
	return b
}

// Fib has Fibonacci-distributed symbol frequencies over k symbols: Huffman depth
// beyond 15 bits, so the length limiter and the long-code paths are exercised.
func Fib(n, k int, seed uint64) []byte {
	if k < 2 {
		k = 2
	}
	if k > 40 {
		k = 40
	}
	f := make([]uint64, k)
	f[0], f[1] = 1, 1
	for i := 2; i < k; i++ {
		f[i] = f[i-1] + f[i-2]
	}
	var tot uint64
	for _, v := range f {
		tot += v
	}
	r := newRng(seed ^ 0xf1b)
	b := make([]byte, n)
	for i := range b {
		x := r.next() % tot
		s := 0
		for x >= f[k-1-s] {
			x -= f[k-1-s]
			s++
		}
		b[i] = byte(s * 5)
	}
	// make sure every symbol appears at least once when there is room
	for s := 0; s < k && s < n; s++ {
		b[(s*7919)%n] = byte(s * 5)
	}
	return b
}

// Ramp cycles through k consecutive byte values (k non-zero code lengths in a row in the header).
func Ramp(n, k int) []byte {
	b := make([]byte, n)
	if k < 1 {
		k = 1
	}
	for i := range b {
		b[i] = byte((i*131 + i/k) % k)
	}
	return b
}

// Gap uses two byte values k apart (a zero run of k-1 in the header's length list).
func Gap(n, k int, seed uint64) []byte {
	r := newRng(seed ^ 0x9a9)
	b := make([]byte, n)
	for i := range b {
		if r.next()&1 == 0 {
			b[i] = 0
		} else {
			b[i] = byte(k)
		}
	}
	return b
}

// NearUniform: all 256 values, two of them twice as frequent.
func NearUniform(n int, seed uint64) []byte {
	r := newRng(seed ^ 0x0ea7)
	b := make([]byte, n)
	for i := range b {
		v := r.next() % 258
		if v >= 256 {
			v = (v - 256) * 17
		}
		b[i] = byte(v)
	}
	return b
}

// Tiny enumerates all strings over the first k letters of "abc" with length <= maxLen.
func Tiny(k, maxLen int) [][]byte {
	var out [][]byte
	var rec func(cur []byte)
	rec = func(cur []byte) {
		out = append(out, append([]byte{}, cur...))
		if len(cur) == maxLen {
			return
		}
		for i := 0; i < k; i++ {
			rec(append(cur, "abc"[i]))
		}
	}
	rec(nil)
	return out
}

// Piece is a named member of a data alphabet.
type Piece struct {
	Name string
	Data []byte
}

// P builds a piece.
func P(name string, data []byte) Piece { return Piece{name, data} }

// Runs is a sequence of runs whose lengths cycle through lo..hi (match lengths around a boundary such as 258), each run a different byte value.
func Runs(n, lo, hi int) []byte {
	b := make([]byte, 0, n+hi)
	l := lo
	v := byte('A')
	for len(b) < n {
		for i := 0; i < l; i++ {
			b = append(b, v)
		}
		v++
		if v > 'Z' {
			v = 'A'
		}
		l++
		if l > hi {
			l = lo
		}
	}
	return b[:n]
}

// FarCopies is a 32 KiB incompressible block followed by many copies of 131..257 bytes taken from 24577..32768 bytes
// back (tokens with the maximal number of extra bits: length symbols with 5 extra bits, distance symbol 29), separated
// by 0..2 fresh literals; variant selects the lengths, distances and alignment.
func FarCopies(variant int, seed uint64) []byte {
	r := newRng(seed ^ uint64(variant)*0x9e37 ^ 0xfa2c)
	b := Rand(32768+int(r.next()%7), seed^uint64(variant))
	for i := 0; i < 16000/257; i++ {
		b = append(b, byte(r.next()))
	}
	for k := 0; k < 400; k++ {
		l := 131 + int(r.next()%127)
		d := 24577 + int(r.next()%8192)
		if variant%3 == 0 {
			d = 28673 + int(r.next()%4096) // top extra bit set
		}
		if d > len(b) {
			d = len(b)
		}
		start := len(b) - d
		for i := 0; i < l; i++ {
			b = append(b, b[start+i])
		}
		for i := uint64(0); i < r.next()%3; i++ {
			b = append(b, byte(r.next()))
		}
	}
	return b
}

// UniformWithMatches: every byte value occurs exactly r times as a literal (r pseudo-random permutations of 0..255 cut
// into 32-byte chunks), and right after each chunk come copies of the chunk's tail: lengths 4, 5, ..., 4+m occur
// c<<m, c<<(m-1), ..., c times (counts halving with the length), optionally one more length once. The copies sit a
// few bytes behind their source, so every match finder sees them. The literal/length code then has 256 or more
// symbols of one length and a chain of shorter and longer ones.
func UniformWithMatches(r, m, c int, single bool, seed uint64) []byte {
	rg := newRng(seed ^ uint64(r*1000+m*10+c) ^ 0x5eed)
	var p []byte
	for i := 0; i < r; i++ {
		perm := make([]byte, 256)
		for j := range perm {
			perm[j] = byte(j)
		}
		for j := 255; j > 0; j-- {
			k := int(rg.next() % uint64(j+1))
			perm[j], perm[k] = perm[k], perm[j]
		}
		p = append(p, perm...)
	}
	var lengths []int
	if single {
		lengths = append(lengths, 4+m+2)
	}
	for j := m; j >= 0; j-- {
		for n := 0; n < c<<uint(m-j); n++ {
			lengths = append(lengths, 4+j)
		}
	}
	const chunk = 32
	body := len(p) - 8 // the last 8 input bytes are always emitted as literals
	nfull := body / chunk
	per := make([][]int, nfull)
	for i, l := range lengths {
		per[i%nfull] = append(per[i%nfull], l)
	}
	out := make([]byte, 0, len(p)+8*len(lengths))
	for lo := 0; lo < body; lo += chunk {
		hi := lo + chunk
		if hi > body {
			hi = body
		}
		out = append(out, p[lo:hi]...)
		if lo/chunk >= nfull {
			continue
		}
		end := chunk - 1
		for _, l := range per[lo/chunk] {
			if end-l < 0 {
				end = chunk - 1
			}
			out = append(out, p[lo+end-l:lo+end]...)
			end--
		}
	}
	return append(out, p[body:]...)
}

// Kinds lists content kinds by name for ladders.
var Kinds = []string{"zero", "rand", "r3", "text", "per7", "fib"}

// Make builds n bytes of the named kind.
func Make(kind string, n int, seed uint64) []byte {
	switch kind {
	case "zero":
		return Zero(n, 0)
	case "rand":
		return Rand(n, seed)
	case "r3":
		return R3(n, seed)
	case "text":
		return Text(n, seed)
	case "per7":
		return Per(n, 7, seed)
	case "fib":
		return Fib(n, 30, seed)
	case "nearuniform":
		return NearUniform(n, seed)
	case "runs258":
		return Runs(n, 250, 270)
	}
	panic("unknown kind " + kind)
}

// Reduced is the small alphabet used by operation-sequence exploration: one
// piece per distinct internal situation of a compressor with fill trigger T.
func Reduced(T int, seed uint64) []Piece {
	return []Piece{
		P("small", []byte("hello, hello, hello world\n")),
		P(fmt.Sprintf("fill-1(text,%d)", T-1), Text(T-1, seed)),
		P(fmt.Sprintf("fill(rand,%d)", T), Rand(T, seed)),
		P(fmt.Sprintf("fill+1(r3,%d)", T+1), R3(T+1, seed)),
		P(fmt.Sprintf("3fill(text,%d)", 3*T+5), Text(3*T+5, seed+1)),
		P("zero-long(70001)", Zero(70001, 'z')),
		P("empty", nil),
		// after a full buffer has been compressed and slid, this many bytes fill it again exactly (T = 2W+258, so
		// T-(T-258)/2 = W+258): the second and every later full-buffer point
		P(fmt.Sprintf("again-full(text,%d)", T-(T-258)/2), Text(T-(T-258)/2, seed+2)),
	}
}

// GeoTail: 12 symbols whose counts double (9, 18, ..., 9<<11) in pseudo-random order, plus 8 symbols that occur once
// (the optimal Huffman tree is deeper than 15: the length limiter has to borrow from levels far above the limit, and
// the once-only symbols get the longest codes), then pad copies of the most frequent symbol, and the input ENDS with
// tail (1..8) of the once-only symbols: the last codes a vectorised encoder handles in its scalar tail are the longest.
func GeoTail(pad, tail int, seed uint64) []byte {
	r := newRng(seed ^ 0x6e07a11)
	var b []byte
	for k := 0; k < 12; k++ {
		for i := 0; i < 9<<uint(k); i++ {
			b = append(b, byte('A'+k))
		}
	}
	for i := len(b) - 1; i > 0; i-- {
		j := int(r.next() % uint64(i+1))
		b[i], b[j] = b[j], b[i]
	}
	once := []byte("stuvwxyz")
	if tail > len(once) {
		tail = len(once)
	}
	// the once-only symbols that do not end the input form one cluster (the longest codes back to back inside one
	// iteration of a vectorised encoder) whose position moves with pad
	p := 1000 + pad
	cluster := once[:len(once)-tail]
	b = append(b[:p], append(append([]byte{}, cluster...), b[p:]...)...)
	for i := 0; i < pad; i++ {
		b = append(b, byte('A'+11))
	}
	return append(b, once[len(once)-tail:]...)
}

// HotTail: pairs (hot byte, one of 200 other values in pseudo-random order) - the hot byte is half of all symbols and
// gets a 1-bit code, and there is next to nothing to match - with a run of run hot bytes that ends exactly at offset
// at (a point where the compressor is forced to emit single literals: the end of a buffer fill), preceded by lead
// bytes of other values that shift the bit position of everything behind them; total bytes in all.
func HotTail(at, run, lead, total int, seed uint64) []byte {
	r := newRng(seed ^ 0x407)
	other := func() byte { return byte(40 + r.next()%200) }
	b := make([]byte, 0, total)
	for i := 0; i < lead; i++ {
		b = append(b, other())
	}
	for len(b) < at-run {
		b = append(b, 0x07)
		if len(b) < at-run {
			b = append(b, other())
		}
	}
	for len(b) < at {
		b = append(b, 0x07)
	}
	for len(b) < total {
		b = append(b, other(), 0x07)
	}
	return b[:total]
}

// Lucas: k byte values with counts 1, 1, 3, 4, 7, 11, 18, ... (every count larger than the sum of the two before it
// would merge to: with the leaf-first tie-break of the code construction this, not the plain Fibonacci sequence, gives
// the deepest possible tree: depth k-1), in pseudo-random order. k = 22 is 64077 bytes: the deepest tree one 64 KiB
// Huffman-only block can have.
func Lucas(k int, seed uint64) []byte {
	counts := []int{1, 1}
	a, b := 1, 3
	for len(counts) < k {
		counts = append(counts, b)
		a, b = b, a+b
	}
	var out []byte
	for i, c := range counts[:k] {
		for j := 0; j < c; j++ {
			out = append(out, byte(7+i*11))
		}
	}
	r := newRng(seed ^ 0x10ca5)
	for i := len(out) - 1; i > 0; i-- {
		j := int(r.next() % uint64(i+1))
		out[i], out[j] = out[j], out[i]
	}
	return out
}

// DeepToken builds input whose single block has BOTH Huffman trees at or near the 15-bit limit and ends in one match
// token with the maximal number of bits: about 13500 four-byte copies separated by two fresh literals each (one block: at most 32767 tokens), whose
// distances fall into fifteen distance symbols with counts growing by the factor 1.75 (every count clearly larger
// than the sum of the two before it: the distance tree is a chain 14 deep, with a margin for a few matches the
// finder misses); a chain of rarer and rarer longer copies (the literal/length tree reaches its 15-bit codes); and as
// the last match a copy of 240 bytes (length symbol 284: 5 extra bits) at a distance of the rarest class, both
// symbols occurring once: code + extra bits of the length and the code of the distance exceed 32 bits. tail fresh
// literals follow it.
func DeepToken(tail int, seed uint64) []byte {
	r := newRng(seed ^ 0xdee9)
	var out []byte
	var lit []bool // lit[i]: byte i is a fresh literal; a 4-byte window that holds one is unique in the data
	rnd := func(n int) {
		for i := 0; i < n; i++ {
			out = append(out, byte(r.next()>>11))
			lit = append(lit, true)
		}
	}
	rnd(1100)
	type cp struct{ l, dlo, dhi int }
	var copies []cp
	// distance symbols 18 (513..768, kept for the last match), 17, 16, ..., 4 (5..6)
	dlo := []int{385, 257, 193, 129, 97, 65, 49, 33, 25, 17, 13, 9, 7, 5}
	dhi := []int{512, 384, 256, 192, 128, 96, 64, 48, 32, 24, 16, 12, 8, 6}
	// counts per class, rarest first: a factor above 2 while the counts are small (a handful of matches that the
	// finder attributes to another class must not reorder the tree), 1.75 from there on
	counts := []int{1, 3, 8, 20, 45, 80, 136, 231, 393, 668, 1136, 1931, 3283, 5581}
	for s := range dlo {
		for j := 0; j < counts[s]; j++ {
			copies = append(copies, cp{4, dlo[s], dhi[s]})
		}
	}
	f := 1.0
	for _, l := range []int{200, 170, 140, 110, 90, 60, 40, 25, 14, 8, 6} {
		for j := 0; j < int(f+0.5); j++ {
			copies = append(copies, cp{l, 5, 6}) // overlapping copies in the most frequent distance class
		}
		f *= 1.75
	}
	for i := len(copies) - 1; i > 0; i-- {
		j := int(r.next() % uint64(i+1))
		copies[i], copies[j] = copies[j], copies[i]
	}
	emit := func(l, dlo, dhi int) {
		// a source whose first four bytes hold a fresh literal: no other occurrence of them can be nearer
		d := 0
		for try := 0; try < 400 && d == 0; try++ {
			cand := dlo + int(r.next()%uint64(dhi-dlo+1))
			st := len(out) - cand
			for i := 0; i < 4 && i < cand; i++ {
				if lit[st+i] {
					d = cand
				}
			}
		}
		if d == 0 {
			d = dlo
		}
		st := len(out) - d
		for i := 0; i < l; i++ {
			out = append(out, out[st+i])
			lit = append(lit, false)
		}
	}
	for _, c := range copies {
		emit(c.l, c.dlo, c.dhi)
		rnd(2)
	}
	rnd(800)
	emit(240, 513, 768) // the last match: length symbol 284, distance symbol 18, each for the only time
	rnd(tail)
	return out
}
