//go:build c17snap

package main

import (
	"encoding/json"
	"fmt"
	"strconv"

	"github.com/intel/fastgo/verif/props"
)

func raceMain(args []string) int {
	rounds := 3
	if len(args) > 0 {
		if v, err := strconv.Atoi(args[0]); err == nil && v > 0 {
			rounds = v
		}
	}
	sum, fails := props.RaceBody(seed(), rounds)
	b, _ := json.Marshal(map[string]interface{}{"summary": sum, "failures": fails})
	fmt.Printf("RACE-RESULT: %s\n", b)
	if len(fails) > 0 {
		return 1
	}
	return 0
}
