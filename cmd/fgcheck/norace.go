//go:build !c17snap

package main

import "fmt"

func raceMain(args []string) int {
	fmt.Println("the race pass exists only in the C17 build (./check C17 <tier>)")
	return 2
}
