// fgcheck: driver, worker and replayer for the fastgo property checks.
//
//	fgcheck drive  <ID> <quick|thorough>     build is done by ./check; spawns workers, merges, writes evidence
//	fgcheck worker <ID> <tier> <shard> <nshard> <out.json>
//	fgcheck replay <file.json>
//	fgcheck probe                            pushes a small workload through every code path of the current level
package main

import (
	"bytes"
	"encoding/json"
	"fmt"
	"os"
	"os/exec"
	"path/filepath"
	"runtime/pprof"
	"sort"
	"strconv"
	"strings"
	"sync"
	"time"

	"github.com/intel/fastgo/verif/mc"
	"github.com/intel/fastgo/verif/props"
)

type workerResult struct {
	Prop       string            `json:"prop"`
	Level      int               `json:"level"`
	Shard      int               `json:"shard"`
	Stats      mc.Stats          `json:"stats"`
	Violations []mc.Violation    `json:"violations"`
	Samples    [][]string        `json:"samples"`
	Table      map[string]string `json:"table,omitempty"`
	WallS      float64           `json:"wall_s"`
	HarnessErr string            `json:"harness_error,omitempty"`
}

type replayFile struct {
	Property string   `json:"property"`
	Key      string   `json:"key"`
	Tier     string   `json:"tier"`
	Seed     uint64   `json:"seed"`
	Level    int      `json:"level"`
	Choices  []int    `json:"choices"`
	Labels   []string `json:"labels"`
	Msg      string   `json:"msg"`
	Count    int      `json:"count"`
}

type knownFinding struct {
	Property string `json:"property"`
	Key      string `json:"key"`
	Status   string `json:"status"` // known | fixed
	Commit   string `json:"commit,omitempty"`
	What     string `json:"what"`
}

func seed() uint64 {
	if s := os.Getenv("VERIF_SEED"); s != "" {
		if v, err := strconv.ParseUint(s, 10, 64); err == nil {
			return v
		}
		if v, err := strconv.ParseInt(s, 10, 64); err == nil {
			return uint64(v)
		}
	}
	return 1
}

func verifDir() string {
	if d := os.Getenv("VERIF_DIR"); d != "" {
		return d
	}
	wd, _ := os.Getwd()
	return wd
}

func main() {
	if len(os.Args) < 2 {
		fmt.Fprintln(os.Stderr, "usage: fgcheck drive|worker|replay|probe ...")
		os.Exit(2)
	}
	switch os.Args[1] {
	case "probe":
		go func() { // never outlive the driver's own limit (a mutated library may loop forever)
			time.Sleep(100 * time.Second)
			fmt.Println("probe: workload did not finish")
			os.Exit(4)
		}()
		if err := props.Probe(); err != nil {
			fmt.Println("probe failed:", err)
			os.Exit(3)
		}
		fmt.Printf("level %d ok\n", props.ArchLevel())
	case "worker":
		worker(os.Args[2:])
	case "drive":
		os.Exit(drive(os.Args[2:]))
	case "replay":
		os.Exit(replay(os.Args[2:]))
	case "race":
		os.Exit(raceMain(os.Args[2:]))
	case "list":
		var ids []string
		for id := range props.Registry {
			ids = append(ids, id)
		}
		sort.Strings(ids)
		fmt.Println(strings.Join(ids, " "))
	default:
		fmt.Fprintln(os.Stderr, "unknown subcommand", os.Args[1])
		os.Exit(2)
	}
}

func tierSpec(p *props.Prop, tier string) props.TierSpec {
	if tier == "thorough" {
		return p.Thorough
	}
	return p.Quick
}

func budget(ts props.TierSpec) time.Duration {
	b := ts.BudgetS
	if s := os.Getenv("VERIF_BUDGET_S"); s != "" {
		if v, err := strconv.Atoi(s); err == nil && v > 0 {
			b = v
		}
	}
	if b <= 0 {
		b = 120
	}
	return time.Duration(b) * time.Second
}

func worker(args []string) {
	if len(args) < 5 {
		fmt.Fprintln(os.Stderr, "usage: fgcheck worker ID tier shard nshard out.json")
		os.Exit(2)
	}
	id, tier := args[0], args[1]
	shard, _ := strconv.Atoi(args[2])
	nshard, _ := strconv.Atoi(args[3])
	out := args[4]
	p := props.Registry[id]
	if p == nil {
		fmt.Fprintln(os.Stderr, "unknown property", id)
		os.Exit(2)
	}
	ts := tierSpec(p, tier)
	cfg := &props.Cfg{Tier: tier, Thorough: tier == "thorough", Seed: seed(), Level: props.ArchLevel()}
	res := workerResult{Prop: id, Level: cfg.Level, Shard: shard}
	start := time.Now()
	if pf := os.Getenv("VERIF_CPUPROFILE"); pf != "" {
		f, _ := os.Create(pf)
		pprof.StartCPUProfile(f)
		defer pprof.StopCPUProfile()
	}
	func() {
		defer func() {
			if r := recover(); r != nil {
				if he, ok := r.(mc.HarnessError); ok {
					res.HarnessErr = he.Msg
					return
				}
				panic(r)
			}
		}()
		e := &mc.Explorer{Harness: p.Harness(cfg), MaxDev: ts.MaxDev, Merge: ts.Merge, Shard: shard, NShard: nshard,
			ShardDepth: ts.ShardDepth, Deadline: start.Add(budget(ts)), MaxSamples: 4}
		if p.Join != nil {
			e.TableOut = map[string]string{}
		}
		// hang watchdog: a single execution normally takes well under a second; no choice point for hangS seconds
		// means the library (or the harness) loops forever. The current choice list becomes the replay.
		go func() {
			last, lastT := e.Progress(), time.Now()
			for {
				time.Sleep(2 * time.Second)
				if p := e.Progress(); p != last {
					last, lastT = p, time.Now()
					continue
				}
				if time.Since(lastT) > hangLimit() {
					ch, lab := e.Current()
					st, vs := e.Snapshot()
					res.Stats = st
					res.Stats.Exhaustive = false
					res.Stats.CapHit = "hang"
					res.Violations = append(vs, mc.Violation{Key: id + " hang", Msg: fmt.Sprintf("no progress for %v inside one execution at acceleration level %d: the library does not return (last choices: %v)", hangLimit(), cfg.Level, lab), Choices: ch, Labels: lab, Count: 1})
					res.WallS = time.Since(start).Seconds()
					b, _ := json.Marshal(res)
					os.WriteFile(out, b, 0o644)
					os.Exit(0)
				}
			}
		}()
		res.Stats = e.Run()
		res.Violations = e.Violations()
		res.Samples = e.Samples
		res.Table = e.TableOut
	}()
	res.WallS = time.Since(start).Seconds()
	b, _ := json.Marshal(res)
	if err := os.WriteFile(out, b, 0o644); err != nil {
		fmt.Fprintln(os.Stderr, err)
		os.Exit(2)
	}
}

func hangLimit() time.Duration {
	if s := os.Getenv("VERIF_HANG_S"); s != "" {
		if v, err := strconv.Atoi(s); err == nil && v > 0 {
			return time.Duration(v) * time.Second
		}
	}
	return 120 * time.Second
}

func self() string {
	exe, err := os.Executable()
	if err != nil {
		return os.Args[0]
	}
	return exe
}

// probeLevels returns the acceleration levels that run on this host.
func probeLevels() (ok []int, notes []string) {
	for _, l := range []int{0, 1, 2, 3, 4} {
		cmd := exec.Command(self(), "probe")
		cmd.Env = append(os.Environ(), fmt.Sprintf("FASTGO_VERIF_ARCHLEVEL=%d", l))
		var ob bytes.Buffer
		cmd.Stdout, cmd.Stderr = &ob, &ob
		err := cmd.Start()
		if err == nil {
			done := make(chan error, 1)
			go func() { done <- cmd.Wait() }()
			select {
			case err = <-done:
			case <-time.After(90 * time.Second):
				cmd.Process.Kill()
				// a level that hangs on the probe's plain round trip is still run: the checks report the hang themselves
				notes = append(notes, fmt.Sprintf("acceleration level %d: the probe workload did not finish within 90 s", l))
				ok = append(ok, l)
				continue
			}
		}
		outb := ob.Bytes()
		if err != nil {
			notes = append(notes, fmt.Sprintf("acceleration level %d not runnable on this host (%v): %s", l, err, firstLine(string(outb))))
			continue
		}
		if !strings.Contains(string(outb), fmt.Sprintf("level %d ok", l)) {
			notes = append(notes, fmt.Sprintf("acceleration level %d: override not effective (%s)", l, firstLine(string(outb))))
			continue
		}
		ok = append(ok, l)
	}
	return
}

func firstLine(s string) string {
	if i := strings.IndexByte(s, '\n'); i >= 0 {
		return s[:i]
	}
	return s
}

func loadKnown(dir string) []knownFinding {
	var k []knownFinding
	b, err := os.ReadFile(filepath.Join(dir, "known_findings.json"))
	if err != nil {
		return nil
	}
	if err := json.Unmarshal(b, &k); err != nil {
		fmt.Fprintln(os.Stderr, "known_findings.json:", err)
		os.Exit(2)
	}
	return k
}

func drive(args []string) int {
	if len(args) < 2 {
		fmt.Fprintln(os.Stderr, "usage: fgcheck drive ID quick|thorough")
		return 2
	}
	id, tier := args[0], args[1]
	p := props.Registry[id]
	if p == nil {
		fmt.Fprintln(os.Stderr, "unknown property", id)
		return 2
	}
	if tier != "quick" && tier != "thorough" {
		fmt.Fprintln(os.Stderr, "tier must be quick or thorough")
		return 2
	}
	start := time.Now()
	dir := verifDir()
	work := filepath.Join(dir, ".work", id)
	os.RemoveAll(work)
	os.MkdirAll(work, 0o755)
	os.MkdirAll(filepath.Join(dir, "evidence"), 0o755)
	os.RemoveAll(filepath.Join(dir, "replays", id))
	os.MkdirAll(filepath.Join(dir, "replays", id), 0o755)
	evPath := filepath.Join(dir, "evidence", id+".json")
	os.Remove(evPath)

	ts := tierSpec(p, tier)
	levels, notes := probeLevels()
	if len(levels) == 0 {
		fmt.Println("HARNESS-ERROR: no acceleration level is runnable")
		return 2
	}
	runLevels := levels
	if p.Levels != nil {
		runLevels = p.Levels(levels, tier == "thorough")
	} else if tier == "quick" {
		// level 2 selects exactly the code of level 1; it is added in the thorough tier
		var l2 []int
		for _, l := range levels {
			if l != 2 {
				l2 = append(l2, l)
			}
		}
		runLevels = l2
	}
	nshard := ts.Shards
	if nshard <= 0 {
		nshard = 4
	}
	type job struct{ level, shard int }
	var jobs []job
	for s := 0; s < nshard; s++ {
		for _, l := range runLevels {
			jobs = append(jobs, job{l, s})
		}
	}
	par := 16
	if s := os.Getenv("VERIF_PAR"); s != "" {
		if v, err := strconv.Atoi(s); err == nil && v > 0 {
			par = v
		}
	}
	results := make([]*workerResult, len(jobs))
	errs := make([]string, len(jobs))
	sem := make(chan struct{}, par)
	var wg sync.WaitGroup
	hardTimeout := budget(ts) + 120*time.Second
	for i, j := range jobs {
		wg.Add(1)
		go func(i int, j job) {
			defer wg.Done()
			sem <- struct{}{}
			defer func() { <-sem }()
			out := filepath.Join(work, fmt.Sprintf("L%d_S%d.json", j.level, j.shard))
			cmd := exec.Command(self(), "worker", id, tier, strconv.Itoa(j.shard), strconv.Itoa(nshard), out)
			cmd.Env = append(os.Environ(), fmt.Sprintf("FASTGO_VERIF_ARCHLEVEL=%d", j.level), "GOMAXPROCS=2")
			var stderr bytes.Buffer
			cmd.Stderr = &stderr
			cmd.Stdout = &stderr
			done := make(chan error, 1)
			if err := cmd.Start(); err != nil {
				errs[i] = err.Error()
				return
			}
			go func() { done <- cmd.Wait() }()
			select {
			case err := <-done:
				if err != nil {
					errs[i] = fmt.Sprintf("worker L%d S%d: %v: %s", j.level, j.shard, err, tail(stderr.String(), 3000))
					return
				}
			case <-time.After(hardTimeout):
				cmd.Process.Kill()
				errs[i] = fmt.Sprintf("worker L%d S%d: killed after %v (hang)", j.level, j.shard, hardTimeout)
				return
			}
			b, err := os.ReadFile(out)
			if err != nil {
				errs[i] = err.Error()
				return
			}
			var r workerResult
			if err := json.Unmarshal(b, &r); err != nil {
				errs[i] = err.Error()
				return
			}
			if r.Level != j.level {
				errs[i] = fmt.Sprintf("worker reports level %d, wanted %d", r.Level, j.level)
				return
			}
			results[i] = &r
		}(i, j)
	}
	wg.Wait()

	harnessBroken := false
	for i, e := range errs {
		if e != "" {
			harnessBroken = true
			fmt.Printf("HARNESS-ERROR: %s\n", e)
		} else if results[i] != nil && results[i].HarnessErr != "" {
			harnessBroken = true
			fmt.Printf("HARNESS-ERROR: L%d S%d: %s\n", results[i].Level, results[i].Shard, results[i].HarnessErr)
		}
	}

	// merge
	var tot mc.Stats
	tot.Exhaustive = true
	tot.Bound = 1 << 30
	var samples []interface{}
	type vrec struct {
		v     mc.Violation
		level int
	}
	viol := map[string]*vrec{}
	tables := map[int]map[string]string{}
	perLevel := map[int]int64{}
	caps := []string{}
	for _, r := range results {
		if r == nil {
			tot.Exhaustive = false
			continue
		}
		tot.Executions += r.Stats.Executions
		tot.NonTrivial += r.Stats.NonTrivial
		tot.Transitions += r.Stats.Transitions
		tot.States += r.Stats.States
		tot.Pruned += r.Stats.Pruned
		tot.Outcomes += r.Stats.Outcomes
		perLevel[r.Level] += r.Stats.Executions
		if r.Stats.MaxDepth > tot.MaxDepth {
			tot.MaxDepth = r.Stats.MaxDepth
		}
		if r.Stats.Bound < tot.Bound {
			tot.Bound = r.Stats.Bound
		}
		if !r.Stats.Exhaustive {
			tot.Exhaustive = false
			caps = append(caps, fmt.Sprintf("L%d S%d: %s", r.Level, r.Shard, r.Stats.CapHit))
		}
		if len(samples) < 8 {
			for _, s := range r.Samples {
				if len(samples) < 8 {
					samples = append(samples, map[string]interface{}{"level": r.Level, "choices": s})
				}
			}
		}
		for _, v := range r.Violations {
			if o, ok := viol[v.Key]; ok {
				o.v.Count += v.Count
			} else {
				viol[v.Key] = &vrec{v, r.Level}
			}
		}
		if r.Table != nil {
			if tables[r.Level] == nil {
				tables[r.Level] = map[string]string{}
			}
			for k, v := range r.Table {
				tables[r.Level][k] = v
			}
		}
	}
	if p.Join != nil && !harnessBroken {
		for _, v := range p.Join(tables) {
			vv := v
			viol[v.Key] = &vrec{vv, -1}
		}
	}

	extraCov := map[string]interface{}{}
	if p.Extra != nil && !harnessBroken {
		ex, vs := p.Extra(&props.Cfg{Tier: tier, Thorough: tier == "thorough", Seed: seed(), Level: props.ArchLevel()})
		for k, v := range ex {
			extraCov[k] = v
		}
		for _, v := range vs {
			vv := v
			viol[v.Key] = &vrec{vv, -1}
		}
	}

	// C17: a modified package-level variable is a sufficient condition for interference, not the property itself (a
	// mutex-guarded cache would be legitimate). It is reported as a violation only together with an observed
	// interference or a data race; alone it becomes a note in the evidence.
	if id == "C17" {
		confirmed := false
		for k := range viol {
			if strings.HasPrefix(k, "C17 data-race") || strings.HasPrefix(k, "C17 interference") || strings.HasPrefix(k, "C17 free-running-interference") || strings.HasPrefix(k, "C17 panic") {
				confirmed = true
			}
		}
		if !confirmed {
			var notesG []string
			for k := range viol {
				if strings.HasPrefix(k, "C17 global-state-modified") {
					notesG = append(notesG, k)
					delete(viol, k)
				}
			}
			if len(notesG) > 0 {
				sort.Strings(notesG)
				extraCov["globals_modified_without_observed_interference_or_race"] = notesG
				fmt.Printf("NOTE: %s (no interference in any interleaving and no data race in the free-running pass: not reported as a violation)\n", strings.Join(notesG, "; "))
			}
		}
	}

	known := loadKnown(dir)
	isKnown := func(key string) *knownFinding {
		for i := range known {
			if known[i].Property == id && known[i].Status == "known" && known[i].Key == key {
				return &known[i]
			}
		}
		return nil
	}
	var keys []string
	for k := range viol {
		keys = append(keys, k)
	}
	sort.Strings(keys)
	nviol := 0
	var lines []string
	var vsamples []interface{}
	for _, k := range keys {
		vr := viol[k]
		if kf := isKnown(k); kf != nil {
			lines = append(lines, fmt.Sprintf("KNOWN-FINDING: property=%s %s — %s", id, k, kf.What))
			continue
		}
		rf := replayFile{Property: id, Key: k, Tier: tier, Seed: seed(), Level: vr.level, Choices: vr.v.Choices, Labels: vr.v.Labels, Msg: vr.v.Msg, Count: vr.v.Count}
		name := filepath.Join(dir, "replays", id, sanitize(k)+".json")
		b, _ := json.MarshalIndent(rf, "", " ")
		os.WriteFile(name, b, 0o644)
		// determinism re-check: the same choice list is replayed in fresh processes and must fail again. A replay that
		// fails with another key of the same property still counts (a defect that reads stale or out-of-bounds memory
		// can change its symptom from run to run); a choice list that never fails again is a problem of the harness.
		note := ""
		if vr.level >= 0 {
			same, other := 0, 0
			for i := 0; i < 3 && same < 2; i++ {
				ks := replayOnce(name)
				if contains(ks, k) {
					same++
				} else if len(ks) > 0 {
					other++
				}
			}
			if same == 0 && other == 0 {
				harnessBroken = true
				fmt.Printf("HARNESS-ERROR: violation %q did not fail again in 3 replays in fresh processes\n", k)
				continue
			}
			if same < 2 {
				note = fmt.Sprintf(" [replays: %d with this key, %d with another key of %s]", same, other, id)
			}
		}
		nviol++
		lines = append(lines, fmt.Sprintf("VIOLATION property=%s replay=%s", id, name))
		lines = append(lines, fmt.Sprintf("  key: %s  (level %d, %d executions)%s", k, vr.level, vr.v.Count, note))
		lines = append(lines, "  "+strings.ReplaceAll(tail(vr.v.Msg, 1500), "\n", "\n  "))
		if len(vsamples) < 5 {
			vsamples = append(vsamples, map[string]interface{}{"key": k, "labels": vr.v.Labels})
		}
	}
	for _, l := range lines {
		fmt.Println(l)
	}

	// evidence
	if tot.Bound == 1<<30 {
		tot.Bound = -1
	}
	cov := map[string]interface{}{
		"evaluations":                   tot.Executions,
		"distinct_nontrivial":           tot.NonTrivial,
		"rule":                          p.Rule,
		"states":                        tot.States,
		"transitions":                   tot.Transitions,
		"traces_validated_against_impl": tot.Executions,
		"exhaustive":                    tot.Exhaustive && !harnessBroken,
		"distinct_outcomes":             tot.Outcomes,
		"pruned_by_state_merging":       tot.Pruned,
		"max_depth":                     tot.MaxDepth,
		"deviation_bound_completed":     tot.Bound,
		"acceleration_levels":           runLevels,
		"executions_per_level":          perLevelStr(perLevel),
		"workers":                       len(jobs),
		"samples":                       samples,
		"states_note":                   "sum over worker processes of distinct fingerprints seen by each worker",
	}
	for k, v := range extraCov {
		cov[k] = v
	}
	if len(caps) > 0 {
		cov["caps_hit"] = caps
	}
	if len(vsamples) > 0 {
		cov["violation_samples"] = vsamples
	}
	if len(samples) == 0 {
		cov["samples"] = []interface{}{"none recorded"}
	}
	assume := append([]string{}, p.Assumptions...)
	assume = append(assume, notes...)
	ev := map[string]interface{}{
		"property_id": id,
		"tier":        tier,
		"seed":        int64(seed()),
		"level":       p.Category,
		"coverage":    cov,
		"assumptions": assume,
		"wall_s":      time.Since(start).Seconds(),
		"violations":  nviol,
	}
	if !harnessBroken || nviol > 0 {
		b, _ := json.MarshalIndent(ev, "", " ")
		os.WriteFile(evPath, b, 0o644)
	}
	fmt.Printf("%s %s: levels=%v executions=%d nontrivial=%d states=%d transitions=%d outcomes=%d pruned=%d exhaustive=%v bound=%d violations=%d wall=%.1fs\n",
		id, tier, runLevels, tot.Executions, tot.NonTrivial, tot.States, tot.Transitions, tot.Outcomes, tot.Pruned, tot.Exhaustive, tot.Bound, nviol, time.Since(start).Seconds())
	os.RemoveAll(work)
	if nviol > 0 {
		// reproduced violations stand even if other candidates did not reproduce
		return 1
	}
	if harnessBroken {
		return 2
	}
	return 0
}

func perLevelStr(m map[int]int64) map[string]int64 {
	o := map[string]int64{}
	for k, v := range m {
		o[strconv.Itoa(k)] = v
	}
	return o
}

func sanitize(s string) string {
	var b strings.Builder
	for _, r := range s {
		switch {
		case r >= 'a' && r <= 'z', r >= 'A' && r <= 'Z', r >= '0' && r <= '9', r == '-', r == '_', r == '.':
			b.WriteRune(r)
		default:
			b.WriteByte('_')
		}
	}
	out := b.String()
	if len(out) > 150 {
		out = out[:150]
	}
	return out
}

func tail(s string, n int) string {
	if len(s) > n {
		return s[:n] + "…"
	}
	return s
}

// replayOnce re-runs a replay file in a fresh process; returns whether it failed and with which key.
func contains(l []string, s string) bool {
	for _, v := range l {
		if v == s {
			return true
		}
	}
	return false
}

func replayOnce(path string) (keys []string) {
	b, err := os.ReadFile(path)
	if err != nil {
		return nil
	}
	var rf replayFile
	json.Unmarshal(b, &rf)
	cmd := exec.Command(self(), "replay", path, "--quiet")
	cmd.Env = append(os.Environ(), fmt.Sprintf("FASTGO_VERIF_ARCHLEVEL=%d", rf.Level), fmt.Sprintf("VERIF_SEED=%d", rf.Seed), "GOMAXPROCS=2")
	outb, _ := cmd.CombinedOutput()
	for _, l := range strings.Split(string(outb), "\n") {
		if strings.HasPrefix(l, "REPLAY-KEY: ") {
			keys = append(keys, strings.TrimPrefix(l, "REPLAY-KEY: "))
		}
	}
	return keys
}

func replay(args []string) int {
	if len(args) < 1 {
		fmt.Fprintln(os.Stderr, "usage: fgcheck replay file.json")
		return 2
	}
	quiet := len(args) > 1 && args[1] == "--quiet"
	b, err := os.ReadFile(args[0])
	if err != nil {
		fmt.Fprintln(os.Stderr, err)
		return 2
	}
	var rf replayFile
	if err := json.Unmarshal(b, &rf); err != nil {
		fmt.Fprintln(os.Stderr, err)
		return 2
	}
	if rf.Level >= 0 && props.ArchLevel() != rf.Level {
		// re-exec at the recorded level
		cmd := exec.Command(self(), append([]string{"replay"}, args...)...)
		cmd.Env = append(os.Environ(), fmt.Sprintf("FASTGO_VERIF_ARCHLEVEL=%d", rf.Level), fmt.Sprintf("VERIF_SEED=%d", rf.Seed))
		cmd.Stdout, cmd.Stderr = os.Stdout, os.Stderr
		if err := cmd.Run(); err != nil {
			if ee, ok := err.(*exec.ExitError); ok {
				return ee.ExitCode()
			}
			return 2
		}
		return 0
	}
	p := props.Registry[rf.Property]
	if p == nil {
		fmt.Fprintln(os.Stderr, "unknown property", rf.Property)
		return 2
	}
	os.Setenv("VERIF_SEED", strconv.FormatUint(rf.Seed, 10))
	cfg := &props.Cfg{Tier: rf.Tier, Thorough: rf.Tier == "thorough", Seed: rf.Seed, Level: props.ArchLevel()}
	e := &mc.Explorer{Harness: p.Harness(cfg), MaxDev: -1}
	go func() {
		time.Sleep(hangLimit() / 4)
		fmt.Printf("REPLAY-KEY: %s hang\n", rf.Property)
		fmt.Println("replay: the execution does not return")
		os.Exit(1)
	}()
	x := e.Replay(rf.Choices)
	if !quiet {
		fmt.Printf("replay of %s at acceleration level %d, seed %d\n", rf.Property, cfg.Level, rf.Seed)
		for _, l := range x.Labels() {
			fmt.Println("  choice", l)
		}
		for _, l := range x.Log {
			fmt.Println("  |", l)
		}
	}
	vs := e.Violations()
	if len(vs) == 0 {
		fmt.Println("replay: no violation")
		return 0
	}
	for _, v := range vs {
		fmt.Printf("REPLAY-KEY: %s\n", v.Key)
		if !quiet {
			fmt.Println(v.Msg)
		}
	}
	return 1
}
