#!/usr/bin/env python3
# Regenerates MANIFEST.json from the table below (kept next to the checks so the two cannot drift).
import json, subprocess
CHECKS = {
 "C16": dict(cat="model_checking", design="§5 C16",
   technique="explicit-state exploration of all operation sequences up to a depth bound on the real Writer in lock-step with its compress/* twin (stateless DFS with replay, merged on private-state fingerprints)",
   text="Every sequence of <=4 (quick) / <=6 (thorough) operations over {Write(empty|small|large), Flush, Close, Reset} is executed on the real flate/gzip/zlib Writer at every level -2..9, both windows and with dictionaries, at every runnable acceleration level, next to the standard library's Writer; per call the nil-ness of the error must agree, nothing may panic, nothing may be emitted after a successful Close, and the bytes at the first Close must decode (stdlib, reference inflater, fastgo Reader). Constructors are probed for every level -5..12. Exhaustive within the bound, which is where call-order defects of a four-method API live.",
   note="Trusted: the Go toolchain's compress/* as reference for which call errs; the reference inflater (self-checked against the stdlib in C02). Bound: sequence length; three data pieces."),
 "C01": dict(cat="model_checking", design="§5 C01",
   technique="bounded exhaustive enumeration of inputs (small-scope strings, size ladders around internal thresholds) and of Write/Flush call sequences on the real Writer, three independent inflaters as oracle",
   text="For every setting the flate constructors accept (levels -2..9, both windows, dictionaries) and every runnable acceleration level: every string over {a,b} up to length 10 (12 thorough) and {a,b,c} up to 6 (8), six content kinds at every size 0..300 and in windows around every internal threshold (buffer fill, slide, 64 KiB wrap, token cap), and every sequence {Write(piece),Flush}^<=2 (3) + Close over pieces aimed at those thresholds. Each emitted stream must be decoded to the input by compress/flate, by an independent reference inflater (which also proves the stream complete and ending at the last byte) and by fastgo's Reader; guard zones around internal buffers must stay intact.",
   note="Trusted: compress/flate and the reference inflater as inflaters. Bounds: data values come from six generators plus exhaustive 2-3 letter strings; sizes <= 262145; sequences <= 3 ops."),
 "C09": dict(cat="model_checking", design="§5 C09",
   technique="exhaustive enumeration of Write partitions (all cut subsets up to a size bound from a threshold-aimed candidate set, with zero-length writes) on the real Writer, differential against the one-Write run",
   text="For every accelerated setting, data set and Flush-position set, every subset of the cut-candidate set of size <=1, every pair (reduced set in quick, full set in thorough), the all-candidates partition and the 1-byte partition are executed, each also with zero-length Writes around every cut; the emitted bytes must equal those of the run that writes each Flush segment in one call. Final private-state fingerprints are counted: one per (setting,data,Flush set) means full confluence.",
   note="Trusted: nothing beyond the engine; the reference is the same code fed in one piece, whose output is additionally decoded."),
 "C10": dict(cat="model_checking", design="§5 C10",
   technique="exhaustive enumeration of Write/Flush sequences and of Flush positions in small-scope strings on the real Writers; oracle on every flushed prefix with two independent inflaters",
   text="Every sequence over {Write(piece),Flush}^<=3 (4 thorough), including Flush first, repeated Flush and Flush with nothing pending, for every accelerated flate setting and gzip/zlib at levels -2,1,2,-1,6, plus every small-scope string with a Flush after every prefix (the bit offset a block ends on depends on the data). At each successful Flush the bytes emitted so far, alone, must decode (compress/flate and reference inflater) to exactly the data written so far and then ask for more input at a byte-aligned block boundary; the closed stream must satisfy C01.",
   note="Trusted: compress/flate and the reference inflater as 'any conforming inflater'."),
 "C12": dict(cat="model_checking", design="§5 C12",
   technique="exhaustive enumeration of first-life histories (incl. abandoned streams and failing destinations) x second-life histories on the real Writer, differential against a fresh Writer",
   text="Every first life of <=2 (3 thorough) operations over {Write(piece leaving a distinct residue), Flush, Close, destination starts failing}, then Reset(new sink), then each of six second lives; bytes and errors must equal those of a fresh Writer of the same setting, the old sink must stay untouched, and the output must decode. flate (accelerated, delegated, dictionary), gzip and zlib.",
   note="Trusted: a freshly constructed Writer as the reference model."),
 "C14": dict(cat="fault_enumeration", design="§5 C14",
   technique="exhaustive fault enumeration: for every operation sequence up to a bound, every destination call index fails once (two short-count variants), followed by every bounded continuation, on the real Writer",
   text="For every sequence S of <=2 (3) operations and EVERY k up to the number of destination calls of the fault-free run, the k-th call fails with a fresh error value; the operation in progress must return exactly that value, every later call must fail without a further destination call, nothing may panic or write outside the internal buffers (guard zones), and Reset must revive the Writer. All accelerated settings, delegated levels 0 and 6, gzip and zlib.",
   note="Trusted: the sink's call accounting. A short count with nil error is outside the statement."),
 "C19": dict(cat="model_checking", design="§5 C19",
   technique="exhaustive enumeration of repeat distances/placements around the window and wrap boundaries on the real Writer; reference inflater reports the maximum back-reference distance",
   text="Blocks repeated at every distance in [W-3,W+3] and at the slide/wrap-related distances, four block lengths, six placements relative to buffer slide and 64 KiB position wrap, written whole / split inside the repeat / with a Flush in between, plus periodic data with period W-1..W+1; every back-reference in the output is measured by the reference inflater and must not exceed 4096 (4 KiB constructor) or 32768.",
   note="Trusted: the reference inflater's distance report."),
 "C20": dict(cat="model_checking", design="§5 C20",
   technique="exhaustive enumeration of all periods 1..64 x sizes x settings and of adversarial contents x size ladders on the real Writer; the bounds of the statement as oracle",
   text="Expansion bound n+n/32+256 for five adversarial content kinds at every size of the dense and threshold ladders; effectiveness bound n/32+1200 for EVERY period 1..64, three pattern contents, five sizes >= 64 KiB, levels 1,2,-1, both windows; every runnable acceleration level.",
   note="Bounds are those of the statement; n <= 400000."),
 "C02": dict(cat="model_checking", design="§5 C02",
   technique="bounded exhaustive enumeration of valid DEFLATE streams from a block-level grammar (code-shape catalogue x header encodings x all symbol sequences up to a length x tails) x Read-size policies on the real Reader, differential against compress/flate",
   text="Streams are synthesised block by block: every literal/length shape (flat, 1..15-bit skews, two codes, EOB only, all length symbols, clusters of 13-15-bit codes) x every distance shape (none, single code 0 / 29, two, flat, skewed to 15 bits, clustered >10 bits) x three header run-length encodings x every symbol sequence up to length 2-3 over a per-code alphabet, bare / padded so the AVX2 loop runs / after a 64 KiB prefix; stored blocks at all 8 bit offsets; ordered pairs of shapes in consecutive blocks (table reuse); 2000 tiny blocks; encoder-made streams; a sweep of every match length x first/last distance of every distance symbol. For each stream compress/flate accepts, fastgo must return the same bytes, then io.EOF, again io.EOF, under six Read-size policies, at every acceleration level.",
   note="Trusted: compress/flate as the definition of the expected result; the reference inflater is cross-checked against it on every execution."),
 "C03": dict(cat="model_checking", design="§5 C03",
   technique="small-scope exhaustive input enumeration (all inputs up to 2-3 bytes; all bit continuations up to 11-15 bits after every catalogue header incl. incomplete codes; every single-fault mutation, truncation and bit flip of a corpus) on the real Reader, judged against a permissive reference inflater (upper bound) and compress/flate (lower bound)",
   text="No panic, termination (livelock counter), io.EOF only where the reference finds a complete stream, every byte handed out is the reference's byte at that position, truncated valid stream => io.ErrUnexpectedEOF, defect with >=512 bytes after it => CorruptInputError, first error sticky. Enumerated: all 65793 inputs of <=2 bytes (16.8M of <=3 in thorough); for 58 code pairs x 2 block positions x bare/padded every continuation bit string; header-run faults at every boundary position; the fault catalogue; every cut and bit flip of ~35 short streams; fresh and reused Readers; every acceleration level.",
   note="Trusted: the reference inflater (permissive about unused incomplete codes) as arbiter of well-formedness; 'no hang' by livelock counter and worker timeout."),
 "C04": dict(cat="model_checking", design="§5 C04",
   technique="deviation-bounded exhaustive exploration of environment answers (short reads at any source call, bound 1 quick / 2 thorough) over exhaustive products of bufio size x delivery chunking x EOF mode x Read-size policy, on the real Reader, differential against the all-at-once run",
   text="Every short corpus stream whole and cut at every byte (long streams at a ladder) is read through 13 bufio sizes x 8 delivery chunkings x EOF with/without data, 12 Read-size policies, and with every single (pair in thorough) short read of 11 ladder lengths at any source call; output bytes and final error must equal the all-at-once run. Iterative deviation bounding as in CHESS: all executions with 0 deviations, then 1, then 2.",
   note="Trusted: the all-at-once run as reference (its absolute correctness is C02/C03's business)."),
 "C05": dict(cat="model_checking", design="§5 C05",
   technique="exhaustive enumeration of stream x suffix x source kind x constructor x Read policy on the real Readers; the source object itself is drained afterwards",
   text="After io.EOF the bytes left in the very source object handed to the Reader must be exactly the suffix, for flate (NewReader and Reset), zlib and gzip (member by member), 13 bufio sizes and four non-bufio io.ByteReader kinds, five suffixes incl. one that looks like a next block, end-of-block at every bit offset.",
   note="Non-bufio ByteReaders are a recorded known finding (over-read through an internal bufio)."),
 "C11": dict(cat="model_checking", design="§5 C11",
   technique="exhaustive enumeration of released prefixes (every sync-flush point and the stream end) x delivery x post-prefix behaviour with a gated source owned by the harness; 'blocks forever' is a deterministic abort at the first over-read",
   text="For streams with 1-3 flush points from fastgo and compress/* writers (flate, gzip, zlib), each prefix is released and the source then blocks, errors (alone / with the last data) or delivers unrelated bytes; at the first request beyond the prefix or the first error the Reader must already have handed out everything encoded in the prefix, and io.EOF for a complete stream. No wall clock.",
   note="Trusted: the gate's accounting of released bytes."),
 "C13": dict(cat="model_checking", design="§5 C13",
   technique="exhaustive enumeration of (first stream, read history) x (second input incl. malformed back-references and dictionary combinations) on the real Readers, differential against a fresh Reader",
   text="A Reader that stopped mid-stream, holds undelivered output, reached io.EOF or an error is Reset onto every second input (valid corpus, streams whose back-references reach 1/2/100/32768 bytes before their start, containers, zlib dictionary combinations); bytes and error kind must equal a fresh Reader's.",
   note="Error kinds are compared, not CorruptInputError offsets (a zlib Reader keeps the inflater its first stream needed)."),
 "C15": dict(cat="fault_enumeration", design="§5 C15",
   technique="exhaustive fault enumeration: the source fails after every byte count k of every corpus stream (error alone or with the last data) x source kind x delivery x Read policy on the real Readers",
   text="For every k in 0..|s| the source delivers k bytes then fails with a fresh error value; the Reader or its constructor must return exactly that value, everything handed out before must be a prefix of the true plaintext (sentinel-filled buffers, only p[:n] counts), and the error must be sticky. flate, gzip (one and two members), zlib incl. dictionaries.",
   note="At k = |s| a clean io.EOF of a complete stream is admissible."),
}
NOT_YET = {
}
def main():
    hooks = subprocess.run(["git","-C","/repo","log","--format=%H","--grep=^verif hook"],capture_output=True,text=True).stdout.split()
    props=[json.loads(l)["id"] for l in open("/verif/properties.jsonl")]
    m = {
     "version": 1,
     "setup_cmd": "cd /verif && ./check build",
     "hooks": {
       "guard": "verif (Go build tag)",
       "enable": "go build -tags verif (done by ./check); worker processes are started with FASTGO_VERIF_ARCHLEVEL=<n>",
       "baseline_off_cmd": "cd /repo && GOFLAGS=-mod=mod GOPROXY=off GOSUMDB=off GOTOOLCHAIN=local go test -json -vet=off -count=1 -timeout 25m ./...",
       "source_commits": hooks,
       "add_only": True,
     },
     "engines": [{"name":"fgcheck","path":"/verif/cmd/fgcheck","serves_properties":sorted(CHECKS),
                  "kind_free_text":"hand-written stateless model checker (deviation-bounded DFS with replay, explicit-state merging on reflective fingerprints of private state, prefix sharding over processes, one process per CPU acceleration level) driving the real fastgo code; executable reference models: Go standard library, an independent RFC 1951 reference inflater, fresh instances"}],
     "checks": [],
     "notes": "See DESIGN.md. ./check <ID> <tier> rebuilds fgcheck from /repo's working tree with -tags verif on every invocation. known_findings.json lists recorded findings and fixed defects.",
     "not_applicable": [],
    }
    for pid in props:
        if pid in CHECKS:
            c=CHECKS[pid]
            m["checks"].append({
              "property_id": pid,
              "quick_cmd": f"./check {pid} quick",
              "thorough_cmd": f"./check {pid} thorough",
              "evidence_file": f"/verif/evidence/{pid}.json",
              "replay_cmd_template": "./check replay {path}",
              "engine": "fgcheck",
              "level_claimed": {"category": c["cat"], "text": c["text"], "design_ref": c["design"]},
              "level_note": c["note"],
              "technique": c["technique"],
            })
        else:
            m["not_applicable"].append({"property_id": pid, "reason": NOT_YET.get(pid, "check not built yet in this round (planned, see DESIGN.md §5); not claimed until it runs")})
    json.dump(m, open("/verif/MANIFEST.json","w"), indent=1)
main()
