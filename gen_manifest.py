#!/usr/bin/env python3
# Regenerates MANIFEST.json from the table below (kept next to the checks so the two cannot drift).
import json, subprocess
CHECKS = {
 "C16": dict(cat="model_checking", design="§5 C16",
   technique="explicit-state exploration of all operation sequences up to a depth bound on the real Writer in lock-step with its compress/* twin (stateless DFS with replay, merged on private-state fingerprints)",
   text="Every sequence of <=4 (quick) / <=6 (thorough) operations over {Write(empty|small|large), Flush, Close, Reset} is executed on the real flate/gzip/zlib Writer at every level -2..9, both windows and with dictionaries, at every runnable acceleration level, next to the standard library's Writer; per call the nil-ness of the error must agree, nothing may panic, nothing may be emitted after a successful Close, and the bytes at the first Close must decode (stdlib, reference inflater, fastgo Reader). Constructors are probed for every level -5..12. Exhaustive within the bound, which is where call-order defects of a four-method API live.",
   note="Trusted: the Go toolchain's compress/* as reference for which call errs; the reference inflater (self-checked against the stdlib in C02). Bound: sequence length; three data pieces."),
}
NOT_YET = {
}
def main():
    hooks = subprocess.run(["git","-C","/repo","log","--format=%H","--grep=^verif hook"],capture_output=True,text=True).stdout.split()
    props=[json.loads(l)["id"] for l in open("/verif/properties.jsonl")]
    m = {
     "version": 1,
     "setup_cmd": "cd /verif && ./check build",
     "hooks": {
       "guard": "verif (Go build tag)",
       "enable": "go build -tags verif (done by ./check); worker processes are started with FASTGO_VERIF_ARCHLEVEL=<n>",
       "baseline_off_cmd": "cd /repo && GOFLAGS=-mod=mod GOPROXY=off GOSUMDB=off GOTOOLCHAIN=local go test -json -vet=off -count=1 -timeout 25m ./...",
       "source_commits": hooks,
       "add_only": True,
     },
     "engines": [{"name":"fgcheck","path":"/verif/cmd/fgcheck","serves_properties":sorted(CHECKS),
                  "kind_free_text":"hand-written stateless model checker (deviation-bounded DFS with replay, explicit-state merging on reflective fingerprints of private state, prefix sharding over processes, one process per CPU acceleration level) driving the real fastgo code; executable reference models: Go standard library, an independent RFC 1951 reference inflater, fresh instances"}],
     "checks": [],
     "notes": "See DESIGN.md. ./check <ID> <tier> rebuilds fgcheck from /repo's working tree with -tags verif on every invocation. known_findings.json lists recorded findings and fixed defects.",
     "not_applicable": [],
    }
    for pid in props:
        if pid in CHECKS:
            c=CHECKS[pid]
            m["checks"].append({
              "property_id": pid,
              "quick_cmd": f"./check {pid} quick",
              "thorough_cmd": f"./check {pid} thorough",
              "evidence_file": f"/verif/evidence/{pid}.json",
              "replay_cmd_template": "./check replay {path}",
              "engine": "fgcheck",
              "level_claimed": {"category": c["cat"], "text": c["text"], "design_ref": c["design"]},
              "level_note": c["note"],
              "technique": c["technique"],
            })
        else:
            m["not_applicable"].append({"property_id": pid, "reason": NOT_YET.get(pid, "check not built yet in this round (planned, see DESIGN.md §5); not claimed until it runs")})
    json.dump(m, open("/verif/MANIFEST.json","w"), indent=1)
main()
