module github.com/intel/fastgo/verif

go 1.23

require github.com/intel/fastgo v0.0.0

replace github.com/intel/fastgo => /repo
