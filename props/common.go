// Package props holds one harness + oracle per property, on top of the mc engine.
package props

import (
	"bytes"
	stdflate "compress/flate"
	stdgzip "compress/gzip"
	stdzlib "compress/zlib"
	"errors"
	"fmt"
	"io"
	"runtime"
	"strings"

	fflate "github.com/intel/fastgo/compress/flate"
	fgzip "github.com/intel/fastgo/compress/gzip"
	fzlib "github.com/intel/fastgo/compress/zlib"
	"github.com/intel/fastgo/internal/cpu"
	"github.com/intel/fastgo/verif/env"
	"github.com/intel/fastgo/verif/mc"
	"github.com/intel/fastgo/verif/refinflate"
)

// Cfg is the per-process configuration of a check.
type Cfg struct {
	Tier     string
	Thorough bool
	Seed     uint64
	Level    int // acceleration level actually in effect in this process
}

// TierSpec sizes one tier of one property.
type TierSpec struct {
	MaxDev     int // deviation bound; -1 = no deviation accounting
	Merge      bool
	Shards     int
	ShardDepth int
	BudgetS    int
}

// Prop is one registered property check.
type Prop struct {
	ID          string
	Category    string
	Rule        string
	Assumptions []string
	Quick       TierSpec
	Thorough    TierSpec
	Harness     func(cfg *Cfg) func(x *mc.Exec)
	// Join is called by the driver with the per-level case tables (C18).
	Join func(tables map[int]map[string]string) []mc.Violation
	// Extra runs once in the driver after the exploration (C17: the free-running race pass).
	Extra func(cfg *Cfg) (map[string]interface{}, []mc.Violation)
	// Levels filters the acceleration levels to run (nil = all runnable).
	Levels func(avail []int, thorough bool) []int
}

// Registry of all property checks.
var Registry = map[string]*Prop{}

func register(p *Prop) { Registry[p.ID] = p }

// ArchLevel is the level the library selected in this process.
func ArchLevel() int { return cpu.ArchLevel }

// ---------------------------------------------------------------------------
// panic capture

// PanicInfo describes a recovered panic.
type PanicInfo struct {
	Val   interface{}
	Site  string
	Stack string
	InLib bool
}

func (p *PanicInfo) String() string {
	return fmt.Sprintf("panic %v at %s\n%s", p.Val, p.Site, p.Stack)
}

// Guard runs f and returns a recovered panic, if any. Engine sentinels pass through.
func Guard(f func()) (pi *PanicInfo) {
	defer func() {
		if r := recover(); r != nil {
			if _, ok := r.(mc.HarnessError); ok {
				panic(r)
			}
			if isEngineSentinel(r) {
				panic(r)
			}
			if _, ok := r.(env.WouldBlock); ok {
				panic(r) // a gated source's "would block": control flow of the harness, not a library panic
			}
			st := make([]byte, 16384)
			st = st[:runtime.Stack(st, false)]
			site := mc.PanicSite(string(st))
			pi = &PanicInfo{Val: r, Site: site, Stack: mc.TrimStack(string(st)),
				InLib: strings.Contains(site, "intel/fastgo/compress") || strings.Contains(site, "intel/fastgo/internal") ||
					strings.Contains(string(st), "intel/fastgo/compress")}
		}
	}()
	f()
	return nil
}

func isEngineSentinel(r interface{}) bool { return mc.IsSentinel(r) }

// ---------------------------------------------------------------------------
// writer kinds

// WC is the common shape of every Writer under test and of its stdlib twin.
type WC interface {
	io.Writer
	Flush() error
	Close() error
	Reset(io.Writer)
}

// WK names a writer configuration.
type WK struct {
	Kind  string // flate | flate4k | flatedict | gzip | zlib | zlibdict
	Level int
	Dict  []byte
	Hdr   bool // gzip only: Name, Comment and Extra are set before the first call (the header goes out in several destination calls)
	// BadHdr (gzip only): a header field the format cannot hold, which compress/gzip reports from the call that
	// would write the header: 1 = Extra of 65536 bytes, 2 = NUL inside Name, 3 = non-Latin-1 rune in Comment
	BadHdr int
}

// ApplyHdr sets the header fields of the configuration on a fastgo or compress/gzip Writer (after construction and,
// where a harness wants the fields in every life, after Reset, which clears them).
func (k WK) ApplyHdr(w interface{}) {
	var name, comment string
	var extra []byte
	if k.Hdr {
		name, comment, extra = "n\u00e4me-\u00fc\u00df.txt", "a c\u00f6mment \u00ff", []byte{1, 2, 3, 4, 5} // Latin-1 beyond ASCII: converted on the way out
	}
	switch k.BadHdr {
	case 1:
		extra = make([]byte, 65536)
	case 2:
		name = "a\x00b"
	case 3:
		comment = "caf\u0100"
	}
	if !k.Hdr && k.BadHdr == 0 {
		return
	}
	switch x := w.(type) {
	case *fgzip.Writer:
		x.Name, x.Comment, x.Extra = name, comment, extra
	case *stdgzip.Writer:
		x.Name, x.Comment, x.Extra = name, comment, extra
	}
}

func (k WK) String() string {
	s := fmt.Sprintf("%s/L%d", k.Kind, k.Level)
	if k.Dict != nil {
		s += fmt.Sprintf("/dict%d", len(k.Dict))
	}
	if k.Hdr {
		s += "/hdr"
	}
	if k.BadHdr != 0 {
		s += fmt.Sprintf("/badhdr%d", k.BadHdr)
	}
	return s
}

// Accelerated reports whether fastgo's own compressor (not the delegated stdlib one) runs.
func (k WK) Accelerated() bool {
	switch k.Kind {
	case "flate", "gzip", "zlib":
		return k.Level == 1 || k.Level == 2 || k.Level == -1 || k.Level == -2
	case "flate4k":
		return k.Level != 0
	}
	return false
}

// Window is the maximum back-reference distance the configuration promises.
func (k WK) Window() int {
	if k.Kind == "flate4k" && k.Level != 0 {
		return 4096
	}
	return 32768
}

// Fill is the input-buffer fill trigger of the configuration (aims inputs only).
func (k WK) Fill() int {
	if !k.Accelerated() {
		return 65536
	}
	if k.Level == -2 {
		return 65536
	}
	if k.Kind == "flate4k" {
		return 2*4096 + 258
	}
	return 2*32768 + 258
}

// Fast constructs the fastgo writer.
func (k WK) Fast(dst io.Writer) (w WC, err error) {
	switch k.Kind {
	case "flate":
		x, e := fflate.NewWriter(dst, k.Level)
		if e != nil || x == nil {
			return nil, e
		}
		return x, nil
	case "flate4k":
		x, e := fflate.NewWriterwWith4KWindow(dst, k.Level)
		if e != nil || x == nil {
			return nil, e
		}
		return x, nil
	case "flatedict":
		x, e := fflate.NewWriterDict(dst, k.Level, k.Dict)
		if e != nil || x == nil {
			return nil, e
		}
		return x, nil
	case "gzip":
		x, e := fgzip.NewWriterLevel(dst, k.Level)
		if e != nil || x == nil {
			return nil, e
		}
		k.ApplyHdr(x)
		return x, nil
	case "zlib":
		x, e := fzlib.NewWriterLevel(dst, k.Level)
		if e != nil || x == nil {
			return nil, e
		}
		return x, nil
	case "zlibdict":
		x, e := fzlib.NewWriterLevelDict(dst, k.Level, k.Dict)
		if e != nil || x == nil {
			return nil, e
		}
		return x, nil
	}
	panic("unknown writer kind " + k.Kind)
}

// Std constructs the standard library twin.
func (k WK) Std(dst io.Writer) (w WC, err error) {
	switch k.Kind {
	case "flate", "flate4k":
		x, e := stdflate.NewWriter(dst, k.Level)
		if e != nil {
			return nil, e
		}
		return x, nil
	case "flatedict":
		x, e := stdflate.NewWriterDict(dst, k.Level, k.Dict)
		if e != nil {
			return nil, e
		}
		return x, nil
	case "gzip":
		x, e := stdgzip.NewWriterLevel(dst, k.Level)
		if e != nil {
			return nil, e
		}
		k.ApplyHdr(x)
		return x, nil
	case "zlib":
		x, e := stdzlib.NewWriterLevel(dst, k.Level)
		if e != nil {
			return nil, e
		}
		return x, nil
	case "zlibdict":
		x, e := stdzlib.NewWriterLevelDict(dst, k.Level, k.Dict)
		if e != nil {
			return nil, e
		}
		return x, nil
	}
	panic("unknown writer kind " + k.Kind)
}

// ---------------------------------------------------------------------------
// decoding oracles

// rawDeflate strips a gzip/zlib container with the harness's own parser and
// returns the DEFLATE payload region (from the first deflate byte to the end).
func rawDeflate(kind string, b []byte) ([]byte, int, error) {
	switch kind {
	case "gzip":
		if len(b) < 10 || b[0] != 0x1f || b[1] != 0x8b || b[2] != 8 {
			return nil, 0, errors.New("bad gzip header")
		}
		flg := b[3]
		p := 10
		if flg&4 != 0 {
			if len(b) < p+2 {
				return nil, 0, errors.New("short gzip extra")
			}
			n := int(b[p]) | int(b[p+1])<<8
			p += 2 + n
		}
		for _, bit := range []byte{8, 16} {
			if flg&bit != 0 {
				for p < len(b) && b[p] != 0 {
					p++
				}
				p++
			}
		}
		if flg&2 != 0 {
			p += 2
		}
		if p > len(b) {
			return nil, 0, errors.New("short gzip header")
		}
		return b[p:], p, nil
	case "zlib", "zlibdict":
		if len(b) < 2 {
			return nil, 0, errors.New("short zlib header")
		}
		p := 2
		if b[1]&0x20 != 0 {
			p += 4
		}
		if p > len(b) {
			return nil, 0, errors.New("short zlib header")
		}
		return b[p:], p, nil
	}
	return b, 0, nil
}

func trailerLen(kind string) int {
	switch kind {
	case "gzip":
		return 8
	case "zlib", "zlibdict":
		return 4
	}
	return 0
}

// StdDecode decodes a complete stream of the given kind with the standard library.
// It returns the data and the number of input bytes left unread.
func StdDecode(kind string, b []byte, dict []byte) (out []byte, rest int, err error) {
	br := bytes.NewReader(b)
	var r io.Reader
	switch kind {
	case "gzip":
		zr, e := stdgzip.NewReader(br)
		if e != nil {
			return nil, br.Len(), e
		}
		zr.Multistream(false)
		r = zr
	case "zlib", "zlibdict":
		zr, e := stdzlib.NewReaderDict(br, dict)
		if e != nil {
			return nil, br.Len(), e
		}
		r = zr
	default:
		if dict != nil {
			r = stdflate.NewReaderDict(br, dict)
		} else {
			r = stdflate.NewReader(br)
		}
	}
	out, err = io.ReadAll(r)
	return out, br.Len(), err
}

// FastDecode decodes with fastgo's own readers (no dictionary support in flate: uses NewReaderDict alias when dict given).
func FastDecode(kind string, b []byte, dict []byte) (out []byte, rest int, err error, pi *PanicInfo) {
	br := bytes.NewReader(b)
	pi = Guard(func() {
		var r io.Reader
		switch kind {
		case "gzip":
			zr, e := fgzip.NewReader(br)
			if e != nil {
				err = e
				return
			}
			zr.Multistream(false)
			r = zr
		case "zlib", "zlibdict":
			zr, e := fzlib.NewReaderDict(br, dict)
			if e != nil {
				err = e
				return
			}
			r = zr
		default:
			if dict != nil {
				r = fflate.NewReaderDict(br, dict)
			} else {
				r = fflate.NewReader(br)
			}
		}
		out, err = io.ReadAll(r)
	})
	return out, br.Len(), err, pi
}

// CheckStream applies the C01 oracle to a stream of the given writer kind:
// stdlib, reference inflater and fastgo's reader all decode it to want, the
// stream is complete and nothing follows it. It returns "" or a description,
// and a short class for violation keys.
func CheckStream(k WK, emitted, want []byte) (class, msg string) {
	kind := k.Kind
	if kind == "flate4k" || kind == "flatedict" {
		kind = "flate"
	}
	out, rest, err := StdDecode(kind, emitted, k.Dict)
	if err != nil {
		return "stdlib-rejects", fmt.Sprintf("compress/%s cannot decode the emitted stream: %v (decoded %d of %d bytes)", kind, err, len(out), len(want))
	}
	if !bytes.Equal(out, want) {
		if k.Dict != nil && len(out) == len(k.Dict)+len(want) && bytes.Equal(out[:len(k.Dict)], k.Dict) && bytes.Equal(out[len(k.Dict):], want) {
			return "dict-prepended", fmt.Sprintf("compress/%s decodes the stream to dictionary+data (%d+%d bytes): the preset dictionary was emitted as stream content", kind, len(k.Dict), len(want))
		}
		return "stdlib-differs", fmt.Sprintf("compress/%s decodes to different data: %s", kind, diffDesc(out, want))
	}
	if rest != 0 {
		return "stdlib-trailing", fmt.Sprintf("%d bytes follow the end of the stream", rest)
	}
	raw, _, perr := rawDeflate(kind, emitted)
	if perr != nil {
		return "container", perr.Error()
	}
	res := refinflate.Inflate(raw, refinflate.Options{Dict: k.Dict})
	if res.Err != nil {
		return "ref-rejects", fmt.Sprintf("reference inflater rejects the stream: %v", res.Err)
	}
	if !bytes.Equal(res.Out, want) {
		return "ref-differs", "reference inflater decodes to different data: " + diffDesc(res.Out, want)
	}
	if res.EndByte+trailerLen(kind) != len(raw) {
		return "ref-trailing", fmt.Sprintf("stream ends at byte %d of %d (+%d trailer)", res.EndByte, len(raw), trailerLen(kind))
	}
	if res.MaxDist > k.Window() {
		return "window", fmt.Sprintf("back-reference distance %d exceeds the %d window", res.MaxDist, k.Window())
	}
	if k.Dict == nil || kind != "flate" {
		fo, frest, ferr, pi := FastDecode(kind, emitted, k.Dict)
		if pi != nil {
			return "fast-panics", "fastgo's reader panics on the emitted stream: " + pi.String()
		}
		if ferr != nil {
			return "fast-rejects", fmt.Sprintf("fastgo's reader cannot decode the emitted stream: %v", ferr)
		}
		if !bytes.Equal(fo, want) {
			return "fast-differs", "fastgo's reader decodes to different data: " + diffDesc(fo, want)
		}
		_ = frest
	}
	return "", ""
}

func diffDesc(got, want []byte) string {
	n := len(got)
	if len(want) < n {
		n = len(want)
	}
	i := 0
	for i < n && got[i] == want[i] {
		i++
	}
	return fmt.Sprintf("got %d bytes, want %d; first difference at %d (got %s, want %s)", len(got), len(want), i, around(got, i), around(want, i))
}

func around(b []byte, i int) string {
	if i >= len(b) {
		return "<end>"
	}
	j := i + 8
	if j > len(b) {
		j = len(b)
	}
	return fmt.Sprintf("%x", b[i:j])
}

// errClass maps an error to a coarse class for digests.
func errClass(err error) string {
	switch {
	case err == nil:
		return "nil"
	case err == io.EOF:
		return "EOF"
	case err == io.ErrUnexpectedEOF:
		return "UnexpectedEOF"
	}
	var ce stdflate.CorruptInputError
	if errors.As(err, &ce) {
		return "Corrupt"
	}
	switch err {
	case stdgzip.ErrChecksum, fgzip.ErrChecksum:
		return "gzip.ErrChecksum"
	case stdgzip.ErrHeader, fgzip.ErrHeader:
		return "gzip.ErrHeader"
	case stdzlib.ErrChecksum, fzlib.ErrChecksum:
		return "zlib.ErrChecksum"
	case stdzlib.ErrHeader, fzlib.ErrHeader:
		return "zlib.ErrHeader"
	case stdzlib.ErrDictionary, fzlib.ErrDictionary:
		return "zlib.ErrDictionary"
	}
	return "other:" + err.Error()
}

func nilness(err error) string {
	if err == nil {
		return "nil"
	}
	return "error"
}
