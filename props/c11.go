package props

import (
	"bufio"
	"bytes"
	"errors"
	"fmt"
	"io"

	"github.com/intel/fastgo/verif/env"
	"github.com/intel/fastgo/verif/mc"
	"github.com/intel/fastgo/verif/pieces"
	"github.com/intel/fastgo/verif/synth"
)

// C11 — the Reader delivers what it already has: no waiting on input it does not need.

func init() {
	register(&Prop{
		ID:       "C11",
		Category: "model_checking",
		Rule: "streams with 1..3 sync-flush points made by fastgo and compress/* writers (flate, gzip, zlib) over pieces {3 B, 26 B, 300 B, 4200 B incompressible, 5000 B, 70 KB}; synthesised streams (flate, zlib) in which the data before a sync-flush point, or the whole stream, ends 0..9 bytes after the point where the decoder's 64 KiB output window is full (stored lead ending 0, 1, 3 bytes before it; stored, fixed-literal or fixed-match block across it); released prefix = up to each flush point and up to the end of the stream (incl. trailer); " +
			"delivery of the prefix in {one call, 1, 7, 24, 25 bytes per call}; behaviour after the prefix in {would-block forever, error alone, error together with the last data, unrelated bytes then EOF}; source in {plain io.Reader, bufio 16 / 4096 / 65536}; Read policy in {1, 4096, 1 MiB}; " +
			"oracle: at the moment the Reader first asks for bytes beyond the prefix, or returns an error, it has already handed out all data encoded before that point (and io.EOF when the prefix is the whole stream, except gzip in multistream mode); 'blocks forever' is modelled by aborting the execution at the first over-read, no clock involved; non-trivial = the prefix encodes at least one byte",
		Assumptions: []string{"a source that would block is modelled by a sentinel panic at the first Read beyond the released prefix"},
		Quick:       TierSpec{MaxDev: -1, Shards: 4, ShardDepth: 3, BudgetS: 600},
		Thorough:    TierSpec{MaxDev: -1, Shards: 8, ShardDepth: 3, BudgetS: 1200},
		Harness:     c11Harness,
	})
}

type flushedStream struct {
	name   string
	kind   RK
	bytes  []byte
	points []int // emitted bytes at each flush point; last entry = whole stream
	datas  []int // data bytes written before each point
	data   []byte
	// chunkAfter: the small delivery sizes apply from this stream offset on (the long stored lead of the window-fill
	// streams is delivered in as large pieces as the consumer takes)
	chunkAfter int
}

// c11WindowFillStreams: the stream, or the part of it before a sync-flush point, ends just where the decoder's 64 KiB
// output window is full, so that at the pause everything that is left of the released prefix may sit in the decoder's
// bit buffer. A stored lead ends a bytes before the fill point; the next block (stored / fixed literals / fixed match)
// carries a+e bytes; it is the final block, or it is followed by a sync marker, 10 more literals and the end.
func c11WindowFillStreams(cfg *Cfg) []flushedStream {
	g := newStreamGen(cfg)
	var out []flushedStream
	fills := []int{65536}
	if cfg.Thorough {
		fills = []int{65536, 98304} // the window is full again every 32 KiB after the first time
	}
	build := func(F, a, e, kind int, flushed bool, container string, align int) flushedStream {
		odd := align%2 == 1
		leadLen := F - a
		if odd {
			leadLen-- // the aligning block below carries one literal
		}
		lead := g.wfPrefix(leadLen)
		w := &synth.BitWriter{}
		if container == "zlib" {
			w.Byte(0x78)
			w.Byte(0x9c)
		}
		for h := lead; len(h) > 0; {
			n := len(h)
			if n > 65535 {
				n = 65535
			}
			synth.BuildTo(w, synth.Block{Type: 0, Stored: h[:n]})
			h = h[n:]
		}
		at := (w.Len() + 7) / 8
		data := append([]byte{}, lead...)
		// bit alignment of everything behind: empty fixed blocks are 10 bits (shift 2), a fixed block with one 9-bit
		// literal is 19 bits (shift 3)
		shift := align
		if odd {
			synth.BuildTo(w, synth.Block{Type: 1, Syms: []synth.Sym{{Kind: synth.SymLit, Lit: 200}}})
			data = append(data, 200)
			shift = (align + 8 - 3) % 8
		}
		for i := 0; i < shift/2; i++ {
			synth.BuildTo(w, synth.Block{Type: 1})
		}
		n := a + e
		blk := synth.Block{Final: !flushed}
		switch {
		case kind == 0:
			body := bytes.Repeat([]byte{'s'}, n)
			blk.Type, blk.Stored = 0, body
			data = append(data, body...)
		case kind == 1 || n < 3:
			blk.Type = 1
			for i := 0; i < n; i++ {
				blk.Syms = append(blk.Syms, synth.Sym{Kind: synth.SymLit, Lit: 'a' + i%3})
				data = append(data, byte('a'+i%3))
			}
		default:
			blk.Type = 1
			blk.Syms = append(blk.Syms, synth.Sym{Kind: synth.SymMatch, Len: n, Dist: 17})
			for i := 0; i < n; i++ {
				data = append(data, data[len(data)-17])
			}
		}
		synth.BuildTo(w, blk)
		fs := flushedStream{kind: RK{Kind: container}, chunkAfter: at - 300}
		if flushed {
			synth.BuildTo(w, synth.Block{Type: 0}) // sync marker
			fs.points = append(fs.points, (w.Len()+7)/8)
			fs.datas = append(fs.datas, len(data))
			tail := synth.Block{Final: true, Type: 1}
			for i := 0; i < 10; i++ {
				tail.Syms = append(tail.Syms, synth.Sym{Kind: synth.SymLit, Lit: 'z'})
				data = append(data, 'z')
			}
			synth.BuildTo(w, tail)
		}
		stream := w.Bytes()
		if container == "zlib" {
			stream = append(stream, zlibTrailer(data)...)
		}
		fs.points = append(fs.points, len(stream))
		fs.datas = append(fs.datas, len(data))
		fs.bytes, fs.data = stream, data
		fs.name = fmt.Sprintf("synth-%s[window-fill: stored lead to %d-%d, bit alignment %d, then %s block of %d bytes, flushed=%v]", container, F, a, align, []string{"stored", "fixed-literals", "fixed-match"}[kind], n, flushed)
		return fs
	}
	for _, F := range fills {
		for _, a := range []int{0, 1, 3} {
			for _, e := range []int{0, 1, 2, 3, 4, 9} {
				for kind := 0; kind < 3; kind++ {
					for _, flushed := range []bool{false, true} {
						for _, container := range []string{"flate", "zlib"} {
							if container == "zlib" && (kind != 0 || a != 0) {
								continue
							}
							out = append(out, build(F, a, e, kind, flushed, container, 0))
						}
						// every bit alignment of the block that crosses the fill point (what is left in the bit buffer at
						// the pause may be less than a byte: an end-of-block code alone)
						if kind != 0 && e <= 3 && (a == 0 || a == 3 && e <= 1) {
							for align := 1; align < 8; align++ {
								out = append(out, build(F, a, e, kind, flushed, "flate", align))
							}
						}
					}
				}
			}
		}
	}
	return out
}

func c11Streams(cfg *Cfg) []flushedStream {
	var out []flushedStream
	ps := [][]byte{[]byte("hello, hello, hello world\n"), pieces.Text(300, cfg.Seed), pieces.Text(5000, cfg.Seed+1), pieces.R3(70000, cfg.Seed+2)}
	type plan struct {
		name string
		segs []int // piece index per segment; a flush follows each segment but the last
	}
	ps = append(ps, []byte("abc"), pieces.Rand(4200, cfg.Seed+4))
	plans := []plan{{"26|300", []int{0, 1}}, {"300|5000|26", []int{1, 2, 0}}, {"70K|26", []int{3, 0}}, {"26|26|26|26", []int{0, 0, 0, 0}}, {"5000|70K", []int{2, 3}},
		{"3|3|300", []int{4, 4, 1}}, {"4200rand|3", []int{5, 4}}, {"300|4200rand|300", []int{1, 5, 1}}}
	for _, wk := range []WK{{Kind: "flate", Level: 1}, {Kind: "flate", Level: -2}, {Kind: "flate", Level: 6}, {Kind: "flate", Level: 0}, {Kind: "flate4k", Level: 2}, {Kind: "gzip", Level: 2}, {Kind: "gzip", Level: 6}, {Kind: "zlib", Level: 1}, {Kind: "zlib", Level: 6}} {
		for _, useStd := range []bool{false, true} {
			if useStd && wk.Accelerated() && wk.Kind != "flate" {
				continue
			}
			for _, pl := range plans {
				sink := &env.Sink{}
				var w WC
				var err error
				if useStd {
					w, err = wk.Std(sink)
				} else {
					w, err = wk.Fast(sink)
				}
				if err != nil {
					continue
				}
				rkind := wk.Kind
				if rkind == "flate4k" {
					rkind = "flate"
				}
				fs := flushedStream{kind: RK{Kind: rkind, Multi: false}}
				ok := true
				if pi := Guard(func() {
					for i, pi := range pl.segs {
						w.Write(ps[pi])
						fs.data = append(fs.data, ps[pi]...)
						if i+1 < len(pl.segs) {
							if w.Flush() != nil {
								ok = false
							}
							fs.points = append(fs.points, len(sink.Buf))
							fs.datas = append(fs.datas, len(fs.data))
						}
					}
					if w.Close() != nil {
						ok = false
					}
				}); pi != nil || !ok {
					continue
				}
				fs.points = append(fs.points, len(sink.Buf))
				fs.datas = append(fs.datas, len(fs.data))
				fs.bytes = sink.Buf
				who := "fast"
				if useStd {
					who = "std"
				}
				fs.name = fmt.Sprintf("%s-%s[%s]", who, wk, pl.name)
				out = append(out, fs)
			}
		}
	}
	return out
}

// gatedRead drains r until an error or until the source would block.
func gatedRead(r io.Reader, pol env.ReadPolicy) (out []byte, err error, blocked bool, pi *PanicInfo, livelock bool) {
	zero := 0
	big := env.GetBuf(1 << 20)
	defer env.PutBuf(big)
	for i := 0; ; i++ {
		sz := pol.Size(i)
		if sz > 1<<20 {
			sz = 1 << 20
		}
		buf := big[:sz]
		var n int
		var rerr error
		func() {
			defer func() {
				if rec := recover(); rec != nil {
					if _, ok := rec.(env.WouldBlock); ok {
						blocked = true
						return
					}
					panic(rec)
				}
			}()
			pi = Guard(func() { n, rerr = r.Read(buf) })
		}()
		if blocked || pi != nil {
			return
		}
		out = append(out, buf[:n]...)
		if rerr != nil {
			return out, rerr, false, nil, false
		}
		if n == 0 {
			zero++
			if zero > 1000 {
				return out, nil, false, nil, true
			}
		} else {
			zero = 0
		}
	}
}

func c11Harness(cfg *Cfg) func(x *mc.Exec) {
	streams := c11Streams(cfg)
	streams = append(streams, c11WindowFillStreams(cfg)...)
	afters := []string{"would-block", "error-alone", "error-with-data", "unrelated-bytes"}
	chunks := []int{0, 1, 7, 24, 25}
	bufios := []int{0, 16, 4096, 65536}
	pols := []env.ReadPolicy{env.PolicyAll, env.Policy4096, env.Policy1}
	if cfg.Thorough {
		chunks = []int{0, 1, 2, 3, 5, 7, 8, 9, 13, 23, 24, 25, 26, 100, 4095, 4096}
		bufios = []int{0, 16, 17, 64, 328, 4096, 4097, 65536}
		pols = []env.ReadPolicy{env.PolicyAll, env.Policy4096, env.Policy258, env.Policy7, env.Policy1, env.PolicyAlt}
	}
	return func(x *mc.Exec) {
		fs := streams[x.Choose(len(streams), "stream")]
		pi := x.Choose(len(fs.points), "prefix")
		after := x.Choose(len(afters), "after")
		chunk := chunks[x.Choose(len(chunks), "chunk")]
		bsz := bufios[x.Choose(len(bufios), "bufio")]
		pol := pols[x.Choose(len(pols), "read-policy")]
		multi := false
		if fs.kind.Kind == "gzip" {
			multi = x.Choose(2, "multistream") == 1
		}
		if len(fs.bytes) > 20000 && fs.chunkAfter == 0 && (chunk == 1 && bsz != 16 || pol.Name == "1" && chunk != 0) {
			return // cost
		}
		whole := pi == len(fs.points)-1
		limit := fs.points[pi]
		wantData := fs.data[:fs.datas[pi]]
		if len(wantData) > 0 {
			x.NonTrivial()
		}
		E := env.NewErr("after-prefix")
		src := env.NewSource(fs.bytes)
		src.Chunk = chunk
		src.ChunkAfter = fs.chunkAfter
		switch after {
		case 0:
			src.Limit = limit
			src.Term = env.TermGate
		case 1:
			src.Limit = limit
			src.Term = env.TermErr
			src.Err = E
		case 2:
			src.Limit = limit
			src.Term = env.TermErr
			src.Err = E
			src.WithData = true
		case 3:
			src.Data = append(append([]byte{}, fs.bytes[:limit]...), bytes.Repeat([]byte{0xff, 0x00, 0x7e, 0x81}, 40)...)
			src.Limit = -1
		}
		var source io.Reader = src
		if bsz > 0 {
			source = bufio.NewReaderSize(src, bsz)
		}
		kind := fs.kind
		kind.Multi = multi
		desc := fmt.Sprintf("%s prefix=%d/%d (%d of %d stream bytes, %d data bytes) after=%s chunk=%d bufio=%d policy=%s multistream=%v",
			fs.name, pi+1, len(fs.points), limit, len(fs.bytes), len(wantData), afters[after], chunk, bsz, pol.Name, multi)
		site := fmt.Sprintf("%s after=%s whole=%v", kind.Kind, afters[after], whole)
		var r io.Reader
		var oerr error
		blockedInOpen := false
		func() {
			defer func() {
				if rec := recover(); rec != nil {
					if _, ok := rec.(env.WouldBlock); ok {
						blockedInOpen = true
						return
					}
					panic(rec)
				}
			}()
			r, oerr = kind.OpenFast(source)
		}()
		if blockedInOpen {
			// the header itself is inside the prefix for every stream here; blocking while opening means over-read
			if len(wantData) > 0 || limit >= 20 {
				x.Fail("C11 blocks-in-constructor "+site, "%s: the constructor asked for bytes beyond the released prefix", desc)
			}
			return
		}
		if oerr != nil {
			if errors.Is(oerr, E) && !whole && len(wantData) == 0 {
				x.Outcome("open: E")
				return
			}
			x.Fail("C11 constructor-error "+site, "%s: %v", desc, oerr)
			return
		}
		out, err, blocked, pinfo, livelock := gatedRead(r, pol)
		if pinfo != nil {
			x.Fail("C11 panic "+pinfo.Site, "%s: %s", desc, pinfo)
			return
		}
		if livelock {
			x.Fail("C11 livelock "+site, "%s: 1000 empty reads", desc)
			return
		}
		x.Note(uint64(len(out))<<1 | b2u(blocked))
		if len(out) > len(wantData) || !bytes.Equal(out, wantData[:len(out)]) {
			x.Fail("C11 wrong-data "+site, "%s: %s", desc, diffDesc(out, wantData))
			return
		}
		ending := "blocked"
		if !blocked {
			ending = errClass(err)
			if errors.Is(err, E) {
				ending = "E"
			}
		}
		if len(out) < len(wantData) {
			x.Fail(fmt.Sprintf("C11 data-withheld %s ending=%s", site, ending),
				"%s: only %d of the %d bytes encoded in the released prefix had been handed out when the Reader %s", desc, len(out), len(wantData), endingText(blocked, err))
			return
		}
		if whole && !(kind.Kind == "gzip" && multi) {
			// the stream is complete: io.EOF must be reported without needing the source any further
			if blocked || err != io.EOF {
				x.Fail(fmt.Sprintf("C11 eof-withheld %s ending=%s", site, ending),
					"%s: the whole stream was delivered, yet instead of io.EOF the Reader %s", desc, endingText(blocked, err))
				return
			}
		}
		x.Outcome(fmt.Sprintf("%s -> %d bytes, %s", site, len(out), ending))
	}
}

func endingText(blocked bool, err error) string {
	if blocked {
		return "asked its source for more bytes (would block forever)"
	}
	return fmt.Sprintf("returned %v", err)
}
