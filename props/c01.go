package props

import (
	"fmt"
	"sort"

	"github.com/intel/fastgo/verif/env"
	"github.com/intel/fastgo/verif/mc"
	"github.com/intel/fastgo/verif/pieces"
)

// C01 — compress then decompress returns the input, for every setting and call pattern.

func init() {
	register(&Prop{
		ID:       "C01",
		Category: "model_checking",
		Rule: "for every writer setting: (a) every string over {a,b} up to length 10 (14 thorough) and {a,b,c} up to 6 (9), and every content kind at every size of a dense ladder 0..300 plus windows around each internal threshold, as one Write + Close; " +
			"(a') for the accelerated settings every ramp(k), k=1..300 (k consecutive byte values: every non-zero run length of the header's run-length coder), gap(k), k=1..255 (every zero run length) and Fibonacci-distributed alphabets of 2..40 symbols (Huffman depth beyond 15: length limiting), every period 1..64 at three sizes (long matches at every small distance), 48 variants of back-to-back far copies (tokens with the maximal number of extra bits), a single copy of every length 4..258 at the first and last distance of every distance symbol, every byte value as first and as second literal of a literal pair, all 256 byte values equally often plus a halving chain of 0..10 match lengths (256 or more codes of one length with longer ones behind them); " +
			"(a'') token-cap straddle: incompressible / text prefixes of every length in [32690,32810) and [65400,65600) followed by a long run, a period-7 run or text, so that the last tokens of a full block are of every kind; " +
			"(b) every sequence over {Write(piece), Flush}^<=d (d = 2 quick, 4 thorough) followed by Close with pieces chosen to hit the buffer-fill, slide, block-cap and wrap situations; " +
			"non-trivial = the execution produced at least one compressed block from more than 8 bytes of data or contains a Flush",
		Assumptions: []string{"compress/flate is a correct inflater", "the reference inflater is correct (self-checked against compress/flate on every valid stream)"},
		Quick:       TierSpec{MaxDev: -1, Merge: false, Shards: 4, ShardDepth: 3, BudgetS: 600},
		Thorough:    TierSpec{MaxDev: -1, Merge: false, Shards: 8, ShardDepth: 3, BudgetS: 1700},
		Harness:     c01Harness,
	})
}

// thresholds returns the sizes around which the configuration changes behaviour.
func thresholds(k WK) []int {
	if !k.Accelerated() {
		return []int{65535}
	}
	if k.Level == -2 {
		return []int{8192, 65536, 131072}
	}
	if k.Kind == "flate4k" {
		T := pieces.T4
		return []int{T, T + 4096 + 250, 32767, 65536}
	}
	T := pieces.T32
	return []int{8192, 32767 * 2, 65536, T, T + 32768 + 250, 131072}
}

func sizeLadder(k WK, thorough bool) []int {
	set := map[int]bool{}
	dense := 300
	if !k.Accelerated() {
		dense = 40
	}
	for n := 0; n <= dense; n++ {
		set[n] = true
	}
	w := 9
	if thorough {
		w = 33
	}
	for _, t := range thresholds(k) {
		for n := t - w; n <= t+w; n++ {
			if n >= 0 {
				set[n] = true
			}
		}
	}
	if thorough && k.Accelerated() {
		for _, n := range []int{100000, 200001, 262145} {
			set[n] = true
		}
	}
	var out []int
	for n := range set {
		out = append(out, n)
	}
	sort.Ints(out)
	return out
}

type c01case struct {
	name string
	data []byte
}

// tokenCapData: a prefix of every length around the point where a block's token buffer (32768 tokens) fills - one
// literal per token for the pure Go finder, two for the assembly finders - followed by a long run, periodic data or
// text, so that the last tokens of the full block are of every kind (literal pair, short match, 258-chains of a run).
func tokenCapData(x *mc.Exec, seed uint64, content func(kind string, n int) []byte) ([]byte, string) {
	pk := []string{"rand", "text"}[x.Choose(2, "prefix-kind")]
	var n int
	if x.Choose(2, "cap") == 0 {
		n = 32690 + x.Choose(120, "prefix-len") // one literal per token (pure Go finder)
	} else {
		n = 65400 + x.Choose(200, "prefix-len") // two literals per token (assembly finder)
	}
	tk := x.Choose(3, "tail-kind")
	var tail []byte
	switch tk {
	case 0:
		tail = pieces.Zero(8192, 0)
	case 1:
		tail = pieces.Per(3000, 7, seed)
	case 2:
		tail = pieces.Text(3000, seed+5)
	}
	return append(append([]byte{}, content(pk, n)...), tail...), fmt.Sprintf("%s,%d + tail%d", pk, n, tk)
}

func c01Harness(cfg *Cfg) func(x *mc.Exec) {
	kinds := allFlateKinds(cfg.Thorough)
	var tiny [][]byte
	if cfg.Thorough {
		tiny = append(pieces.Tiny(2, 14), pieces.Tiny(3, 9)...)
	} else {
		tiny = append(pieces.Tiny(2, 10), pieces.Tiny(3, 6)...)
	}
	contentKinds := []string{"zero", "rand", "r3", "text", "per7", "fib", "runs258"}
	depth := 2
	if cfg.Thorough {
		depth = 4
	}
	maxLen := 262145
	cache := map[string][]byte{}
	content := func(kind string, n int) []byte {
		b, ok := cache[kind]
		if !ok {
			b = pieces.Make(kind, maxLen, cfg.Seed)
			cache[kind] = b
		}
		return b[:n]
	}
	ladders := map[string][]int{}
	reduced := map[int][]pieces.Piece{}
	return func(x *mc.Exec) {
		ki := x.Choose(len(kinds), "cfg")
		k := kinds[ki]
		mode := x.Choose(5, "mode")
		sink := &env.Sink{}
		r, err := newRun(k, sink)
		if err != nil {
			x.Fail("C01 ctor "+k.Kind, "%s: %v", k, err)
			return
		}
		switch mode {
		case 0: // tiny strings
			n := len(tiny)
			if !k.Accelerated() {
				n = 63 // strings over {a,b} up to length 5: the delegated levels are compress/flate itself
			}
			ti := x.Choose(n, "tiny")
			if _, _, ok := r.do(x, "C01", opWrite, tiny[ti], fmt.Sprintf("W(%q)", tiny[ti])); !ok {
				return
			}
			if len(tiny[ti]) > 8 {
				x.NonTrivial()
			}
		case 1: // content kind x size ladder
			lad, ok := ladders[k.String()]
			if !ok {
				lad = sizeLadder(k, cfg.Thorough)
				ladders[k.String()] = lad
			}
			ck := contentKinds
			if !k.Accelerated() {
				ck = contentKinds[:3]
			}
			ci := x.Choose(len(ck), "content")
			si := x.Choose(len(lad), "size")
			d := content(ck[ci], lad[si])
			if _, _, ok := r.do(x, "C01", opWrite, d, fmt.Sprintf("W(%s,%d)", ck[ci], lad[si])); !ok {
				return
			}
			if lad[si] > 8 {
				x.NonTrivial()
			}
		case 4: // block token cap: the last tokens of a full block are of every kind (literal pair, short match, 258-chains of a long run)
			if !k.Accelerated() || k.Level == -2 {
				return
			}
			d, dname := tokenCapData(x, cfg.Seed, content)
			if _, _, ok := r.do(x, "C01", opWrite, d, "W("+dname+")"); !ok {
				return
			}
			x.NonTrivial()
		case 3: // header and code-construction shapes: every run length of the header's run-length coder, every Huffman depth
			if !k.Accelerated() {
				return
			}
			fam := x.Choose(12, "shape")
			if !cfg.Thorough && fam >= 3 && (k.Level == -1 || k.Kind == "flate4k" && k.Level > 2) {
				return // quick tier: the sweeps run on one setting per distinct compressor (default = level 2; 4 KiB levels 3..9 = level 2)
			}
			var d []byte
			var nm string
			switch fam {
			case 11: // one block with both trees near the 15-bit limit that ends in a match token of maximal width
				tl := x.Choose(16, "tail")
				d = pieces.DeepToken(tl, cfg.Seed)
				nm = fmt.Sprintf("deeptoken(tail=%d)", tl)
			case 10: // the deepest trees: Lucas counts over 2..24 byte values (22 values = 64077 bytes fill one Huffman-only block)
				kk := 2 + x.Choose(23, "lucas")
				d = pieces.Lucas(kk, cfg.Seed)
				nm = fmt.Sprintf("lucas(%d)", kk)
			case 8: // Huffman depth beyond the limit with the longest codes at the very end of the input, 48 consecutive lengths
				pad := x.Choose(48, "pad")
				tl := 1 + x.Choose(4, "tail")
				d = pieces.GeoTail(pad, tl, cfg.Seed)
				nm = fmt.Sprintf("geotail(pad=%d,tail=%d)", pad, tl)
			case 9: // 1-bit literal codes in single-literal tokens at the end of a buffer fill, every bit alignment
				lead := x.Choose(32, "lead")
				run := []int{8, 12, 16}[x.Choose(3, "run")]
				d = pieces.HotTail(k.Fill(), run, lead, k.Fill()+3550, cfg.Seed)
				nm = fmt.Sprintf("hottail(at=%d,run=%d,lead=%d)", k.Fill(), run, lead)
			case 7: // 256 literals of one code length plus a halving chain of match lengths
				r := []int{1, 2, 4, 8}[x.Choose(4, "literal-repeats")]
				m := x.Choose(11, "chain")
				c := []int{1, 3}[x.Choose(2, "chain-base")]
				single := x.Choose(2, "single") == 1
				d = pieces.UniformWithMatches(r, m, c, single, cfg.Seed)
				nm = fmt.Sprintf("uniform256(r=%d,chain=%d,c=%d,single=%v)", r, m, c, single)
			case 5: // single-copy sweep: every match length 4..258 x the first and last distance of every distance symbol the window allows
				var L, ds int
				if cfg.Thorough {
					L = 4 + x.Choose(255, "copy-len")
					ds = x.Choose(30, "dist-sym")
				} else if x.Choose(2, "axis") == 0 {
					// quick tier: every length at eight distance symbols ...
					L = 4 + x.Choose(255, "copy-len")
					ds = []int{0, 1, 3, 4, 9, 16, 23, 29}[x.Choose(8, "dist-sym")]
				} else {
					// ... and every distance symbol at the lengths that start or end a length symbol's range
					L = []int{4, 5, 10, 11, 12, 18, 19, 34, 35, 66, 67, 130, 131, 226, 227, 257, 258}[x.Choose(17, "copy-len")]
					ds = x.Choose(30, "dist-sym")
				}
				lo, hi := distRangeOf(ds)
				D := lo
				if x.Choose(2, "first/last") == 1 {
					D = hi
				}
				if D > k.Window() {
					return
				}
				pre := content("rand", D+40)
				d = append(append([]byte{}, pre...), pre[40:40+minInt(L, D)]...)
				for len(d) < len(pre)+L { // overlapping copy when L > D
					d = append(d, d[len(d)-D])
				}
				d = append(d, content("rand", 300)[260:300]...)
				nm = fmt.Sprintf("copy(len=%d,dist=%d)", L, D)
			case 6: // literal pairs: every value as second and as first literal of a pair
				v := x.Choose(256, "value")
				o := x.Choose(2, "order")
				d = make([]byte, 0, 48)
				for i := 0; i < 12; i++ {
					if o == 0 {
						d = append(d, byte('a'+i), byte(v))
					} else {
						d = append(d, byte(v), byte('A'+i))
					}
				}
				nm = fmt.Sprintf("pairs(value=%d,order=%d)", v, o)
			case 3: // every period 1..64 (matches longer than 258 at every small distance, the re-seeding of the hash after capped matches)
				pp := 1 + x.Choose(64, "period")
				n := []int{600, 9000, 70000}[x.Choose(3, "size")]
				if !cfg.Thorough && n == 70000 && pp > 8 && pp != 64 {
					return // quick tier: the 70000-byte size for periods 1..8 and 64 only
				}
				d = pieces.Per(n, pp, cfg.Seed)
				nm = fmt.Sprintf("per(%d,%d)", pp, n)
			case 4: // tokens with the maximal number of bits, back to back
				if k.Window() != 32768 {
					return // copies from 24577..32768 back are out of reach of the 4 KiB window
				}
				v := x.Choose(48, "variant")
				d = pieces.FarCopies(v, cfg.Seed)
				nm = fmt.Sprintf("farcopies(%d)", v)
			case 0:
				kk := 1 + x.Choose(300, "ramp")
				d = pieces.Ramp(3000, kk)
				nm = fmt.Sprintf("ramp(%d)", kk)
			case 1:
				kk := 1 + x.Choose(255, "gap")
				d = pieces.Gap(3000, kk, cfg.Seed)
				nm = fmt.Sprintf("gap(%d)", kk)
			case 2:
				kk := 2 + x.Choose(39, "fib")
				n := []int{3000, 70000}[x.Choose(2, "size")]
				if !cfg.Thorough && n == 70000 && kk%4 != 0 {
					return // quick tier: the 70000-byte size for every fourth alphabet size
				}
				d = pieces.Fib(n, kk, cfg.Seed)
				nm = fmt.Sprintf("fib(%d,%d)", kk, n)
			}
			if _, _, ok := r.do(x, "C01", opWrite, d, "W("+nm+")"); !ok {
				return
			}
			x.NonTrivial()
		case 2: // operation sequences
			ps, ok := reduced[k.Fill()]
			if !ok {
				ps = pieces.Reduced(k.Fill(), cfg.Seed)
				reduced[k.Fill()] = ps
			}
			d := depth
			if !k.Accelerated() && d > 2 {
				d = 2
			}
			for step := 0; step < d; step++ {
				c := x.Choose(len(ps)+2, "op")
				if c == 0 {
					break // Close now
				}
				if c == 1 {
					_, err, ok := r.do(x, "C01", opFlush, nil, "Flush")
					if !ok {
						return
					}
					if err != nil {
						x.Fail("C01 flush-error "+k.Kind+accTag(k), "%s [%s]: Flush returned %v on a healthy destination", k, r.hist, err)
						return
					}
					x.NonTrivial()
					continue
				}
				p := ps[c-2]
				_, err, ok := r.do(x, "C01", opWrite, p.Data, "W("+p.Name+")")
				if !ok {
					return
				}
				if err != nil {
					x.Fail("C01 write-error "+k.Kind+accTag(k), "%s [%s]: Write returned %v on a healthy destination", k, r.hist, err)
					return
				}
				if len(p.Data) > 8 {
					x.NonTrivial()
				}
			}
		}
		_, err, ok := r.do(x, "C01", opClose, nil, "Close")
		if !ok {
			return
		}
		if err != nil {
			x.Fail("C01 close-error "+k.Kind+accTag(k), "%s [%s]: Close returned %v on a healthy destination", k, r.hist, err)
			return
		}
		x.Note(r.fp())
		if cls, msg := CheckStream(k, sink.Buf, r.data); cls != "" {
			x.Fail(fmt.Sprintf("C01 %s %s", k.Kind+accTag(k), cls), "%s [%s]: %s", k, r.hist, msg)
		}
		x.Outcome(fmt.Sprintf("%s in=%d out=%d", k, len(r.data), len(sink.Buf)))
	}
}

var cDistBase = [30]int{1, 2, 3, 4, 5, 7, 9, 13, 17, 25, 33, 49, 65, 97, 129, 193, 257, 385, 513, 769, 1025, 1537, 2049, 3073, 4097, 6145, 8193, 12289, 16385, 24577}
var cDistExtra = [30]int{0, 0, 0, 0, 1, 1, 2, 2, 3, 3, 4, 4, 5, 5, 6, 6, 7, 7, 8, 8, 9, 9, 10, 10, 11, 11, 12, 12, 13, 13}

func distRangeOf(sym int) (int, int) {
	return cDistBase[sym], cDistBase[sym] + 1<<uint(cDistExtra[sym]) - 1
}

func minInt(a, b int) int {
	if a < b {
		return a
	}
	return b
}
