package props

import (
	"errors"
	"fmt"
	"io"

	"github.com/intel/fastgo/verif/env"
	"github.com/intel/fastgo/verif/mc"
	"github.com/intel/fastgo/verif/pieces"
)

// C14 — a failing destination is reported, sticks, and never leads to a bad state.

func init() {
	register(&Prop{
		ID:       "C14",
		Category: "fault_enumeration",
		Rule: "operation sequences S over {Write(piece), Flush, Close}: length <=2 over pieces {small, 10 KB, fill, >64 KiB} (quick); thorough: length <=3 over {small, 10 KB, fill} and length <=2 over those plus >64 KiB and 200 KB incompressible; N(S) = destination calls of the fault-free run; " +
			"header variants (zlib with dictionary, gzip with extra/name/comment, flate with dictionary) over {small, 10 KB}; for EVERY k in 1..N(S) the k-th destination call fails with a fresh error value (for one-operation sequences and k <= 2 also with io.EOF, io.ErrShortWrite, io.ErrClosedPipe, and the 'closed writer' errors of a fastgo / compress/flate Writer further down the pipeline, plain and wrapped), accepting 0 or len/2 bytes; then every continuation of length <=2 (<=1 when k>2 in quick, k>6 in thorough) over {W(small), W(fill), Flush, Close}; " +
			"oracle: the operation in progress returns exactly that error, every later call returns a non-nil error and makes no destination call, no panic, guard zones intact, Reset revives the Writer; " +
			"non-trivial = the injected failure was reached (k <= N(S)); distinct = distinct (setting, S, k, short-count, continuation)",
		Assumptions: []string{"the destination reports failure through its error result (a short count with a nil error is outside the statement)"},
		Quick:       TierSpec{MaxDev: -1, Shards: 4, ShardDepth: 3, BudgetS: 600},
		Thorough:    TierSpec{MaxDev: -1, Shards: 8, ShardDepth: 3, BudgetS: 1700},
		Harness:     c14Harness,
	})
}

func c14Harness(cfg *Cfg) func(x *mc.Exec) {
	kinds := accKinds(false)
	kinds = append(kinds, WK{Kind: "flate", Level: 0}, WK{Kind: "flate", Level: 6})
	kinds = append(kinds, containerKinds([]int{-2, 1, 2, 6})...)
	if !cfg.Thorough {
		// quick tier: one representative per distinct code path (the 4 KiB constructor's levels 3..9 and -1 run the
		// level-2 compressor; gzip/zlib level 2 adds nothing over 1 and 6 for error propagation)
		kinds = []WK{{Kind: "flate", Level: 1}, {Kind: "flate", Level: 2}, {Kind: "flate", Level: -1}, {Kind: "flate", Level: -2},
			{Kind: "flate4k", Level: 1}, {Kind: "flate4k", Level: 2}, {Kind: "flate4k", Level: -2}, {Kind: "flate", Level: 0}, {Kind: "flate", Level: 6}}
		kinds = append(kinds, containerKinds([]int{-2, 1, 6})...)
	}
	// header variants: the container header goes out in more destination calls (zlib DICTID; gzip extra, name, comment).
	// What is new in them is the header path, so their sequences use the two small pieces only.
	firstHdr := len(kinds)
	kinds = append(kinds, WK{Kind: "zlibdict", Level: 1, Dict: dict20}, WK{Kind: "zlibdict", Level: -2, Dict: dict20}, WK{Kind: "zlibdict", Level: 6, Dict: dict20},
		WK{Kind: "flatedict", Level: 1, Dict: dict20}, WK{Kind: "gzip", Level: 1, Hdr: true}, WK{Kind: "gzip", Level: 6, Hdr: true})
	d := 2
	if cfg.Thorough {
		d = 3
	}
	pcache := map[int][]pieces.Piece{}
	getPieces := func(k WK) []pieces.Piece {
		T := k.Fill()
		if p, ok := pcache[T]; ok {
			return p
		}
		p := []pieces.Piece{
			pieces.P("small", []byte("hello, hello, hello world\n")),
			pieces.P("10K(text)", pieces.Text(10000, cfg.Seed)),
			pieces.P(fmt.Sprintf("fill(r3,%d)", T), pieces.R3(T, cfg.Seed)),
			pieces.P("70001(text)", pieces.Text(70001, cfg.Seed+2)),
		}
		if cfg.Thorough {
			p = append(p, pieces.P("200K(rand)", pieces.Rand(200000, cfg.Seed+3)))
		}
		pcache[T] = p
		return p
	}
	ncalls := map[string]int{}
	contNames := []string{"end", "W(small)", "W(fill)", "Flush", "Close"}
	return func(x *mc.Exec) {
		ki := x.Choose(len(kinds), "cfg")
		k := kinds[ki]
		ps := getPieces(k)
		// the sequence S. Thorough tier: depth 3 over the small alphabet {small, 10K, fill, Flush, Close}, depth 2 over the full one.
		var S []int
		nps, depth := len(ps), d
		if ki >= firstHdr {
			nps = 2
		}
		if cfg.Thorough {
			if ki >= firstHdr {
				depth = 3
			} else if x.Choose(2, "alphabet") == 0 {
				nps, depth = 3, 3
			} else {
				depth = 2
			}
		}
		for step := 0; step < depth; step++ {
			c := x.Choose(nps+3, "op")
			if c == 0 {
				break
			}
			S = append(S, c)
		}
		skey := fmt.Sprintf("%d:%v", ki, S)
		runS := func(r *wrun, from int, onOp func(i int, op int, n int, err error) bool) bool {
			for i := from; i < len(S); i++ {
				c := S[i]
				var n int
				var err error
				var ok bool
				op := opWrite
				switch c {
				case 1:
					op = opFlush
					n, err, ok = r.do(x, "C14", opFlush, nil, "Flush")
				case 2:
					op = opClose
					n, err, ok = r.do(x, "C14", opClose, nil, "Close")
				default:
					p := ps[c-3]
					n, err, ok = r.do(x, "C14", opWrite, p.Data, "W("+p.Name+")")
				}
				if !ok {
					return false
				}
				if !onOp(i, op, n, err) {
					return false
				}
			}
			return true
		}
		N, have := ncalls[skey]
		if !have {
			sink := &env.Sink{}
			r, err := newRun(k, sink)
			if err != nil {
				x.Fail("C14 ctor "+k.Kind, "%s: %v", k, err)
				return
			}
			if !runS(r, 0, func(i, op, n int, err error) bool { return true }) {
				return
			}
			N = sink.Calls
			ncalls[skey] = N
		}
		if N == 0 {
			x.Outcome("no destination call")
			return
		}
		fk := 1 + x.Choose(N, "fail-at-call")
		short := x.Choose(2, "short-count") == 1
		// the error value: a fresh one, or (one-operation sequences, failures at the first two destination calls) one of the values a Writer
		// might confuse with a condition of its own
		E := env.NewErr(fmt.Sprintf("k=%d", fk))
		evName := "fresh"
		if fk <= 2 && len(S) <= 1 {
			switch x.Choose(7, "error-value") {
			case 4:
				// the destination is itself a closed fastgo Writer further down the pipeline: its error is the
				// library's own "closed writer" value
				E, evName = fastClosedErr(), "fastgo-closed-writer"
			case 5:
				E, evName = fmt.Errorf("stage 2: %w", fastClosedErr()), "wraps-fastgo-closed-writer"
			case 6:
				E, evName = stdClosedErr(), "compress/flate-closed-writer"
			case 1:
				E, evName = io.EOF, "io.EOF"
			case 2:
				E, evName = io.ErrShortWrite, "io.ErrShortWrite"
			case 3:
				E, evName = io.ErrClosedPipe, "io.ErrClosedPipe"
			}
		}
		sink := &env.Sink{FailAt: fk, FailErr: E, FailShort: short}
		r, err := newRun(k, sink)
		if err != nil {
			x.Fail("C14 ctor "+k.Kind, "%s: %v", k, err)
			return
		}
		tag := k.Kind + accTag(k)
		failedAt := -1
		var callsAtFail int
		check := func(phase string) func(i, op, n int, err error) bool {
			return func(i, op, n int, err error) bool {
				if failedAt < 0 {
					if sink.Failed {
						failedAt = i
						callsAtFail = sink.Calls
						x.NonTrivial()
						if !errors.Is(err, E) { // the injected value itself or a wrapper that errors.Is recognises
							x.Fail(fmt.Sprintf("C14 error-not-reported %s op=%s got=%s", tag, opName(op), errClass2(err, E)),
								"%s [%s]: destination call %d failed with %v (%s) inside %s, which returned %v", k, r.hist, fk, E, evName, opName(op), err)
							return false
						}
						return true
					}
					if err != nil {
						x.Fail(fmt.Sprintf("C14 spurious-error %s op=%s", tag, opName(op)), "%s [%s]: %s returned %v although the destination has not failed", k, r.hist, opName(op), err)
						return false
					}
					return true
				}
				// after the failure
				if sink.Calls != callsAtFail {
					x.Fail(fmt.Sprintf("C14 destination-touched-after-failure %s op=%s", tag, opName(op)),
						"%s [%s]: %d further destination call(s) after the failure at call %d", k, r.hist, sink.Calls-callsAtFail, fk)
					return false
				}
				if err == nil {
					x.Fail(fmt.Sprintf("C14 error-not-sticky %s op=%s", tag, opName(op)), "%s [%s]: %s returned nil after the destination had failed", k, r.hist, opName(op))
					return false
				}
				return true
			}
		}
		if !runS(r, 0, check("S")) {
			return
		}
		if failedAt < 0 {
			panic(mc.HarnessError{Msg: fmt.Sprintf("C14: failure at call %d of %d not reached in %s %v", fk, N, k, S)})
		}
		// continuation
		contLen := 2
		if fk > 2 && (!cfg.Thorough || fk > 6) {
			contLen = 1 // two-step continuations for failures at the first two (quick) / six (thorough) destination calls
		}
		for j := 0; j < contLen; j++ {
			c := x.Choose(len(contNames), "cont")
			if c == 0 {
				break
			}
			var n int
			var err error
			var ok bool
			op := opWrite
			switch c {
			case 1:
				n, err, ok = r.do(x, "C14", opWrite, ps[0].Data, "W(small)")
			case 2:
				n, err, ok = r.do(x, "C14", opWrite, ps[2].Data, "W(fill)")
			case 3:
				op = opFlush
				n, err, ok = r.do(x, "C14", opFlush, nil, "Flush")
			case 4:
				op = opClose
				n, err, ok = r.do(x, "C14", opClose, nil, "Close")
			}
			if !ok {
				return
			}
			if !check("cont")(len(S)+j, op, n, err) {
				return
			}
		}
		x.Note(r.fp())
		// Reset revives the Writer
		ns := &env.Sink{}
		if pi := r.reset(ns); pi != nil {
			x.Fail("C14 reset-panic "+tag, "%s [%s]: Reset panics: %s", k, r.hist, pi)
			return
		}
		small := ps[0].Data
		if _, err, ok := r.do(x, "C14", opWrite, small, "W(small)"); !ok || err != nil {
			if ok {
				x.Fail("C14 dead-after-reset "+tag, "%s [%s]: Write after Reset returned %v", k, r.hist, err)
			}
			return
		}
		if _, err, ok := r.do(x, "C14", opClose, nil, "Close"); !ok || err != nil {
			if ok {
				x.Fail("C14 dead-after-reset "+tag, "%s [%s]: Close after Reset returned %v", k, r.hist, err)
			}
			return
		}
		if cls, msg := CheckStream(k, ns.Buf, small); cls != "" && !(k.Dict != nil && cls == "dict-prepended") {
			x.Fail("C14 stream-after-reset "+tag+" "+cls, "%s [%s]: %s", k, r.hist, msg)
			return
		}
		x.Outcome(fmt.Sprintf("%s S=%v k=%d/%d failedInOp=%d", k, S, fk, N, failedAt))
	}
}

// fastClosedErr is the error a closed fastgo flate Writer returns from Write.
func fastClosedErr() error {
	w, err := WK{Kind: "flate", Level: 1}.Fast(io.Discard)
	if err != nil {
		panic(mc.HarnessError{Msg: "fastClosedErr: " + err.Error()})
	}
	w.Close()
	_, e := w.Write([]byte{1})
	if e == nil {
		return env.NewErr("closed-writer-accepted-a-write")
	}
	return e
}

// stdClosedErr is the same for compress/flate.
func stdClosedErr() error {
	w, _ := WK{Kind: "flate", Level: 1}.Std(io.Discard)
	w.Close()
	_, e := w.Write([]byte{1})
	if e == nil {
		panic(mc.HarnessError{Msg: "compress/flate accepted a Write after Close"})
	}
	return e
}

func errClass2(err, want error) string {
	if err == nil {
		return "nil"
	}
	if err == want {
		return "same"
	}
	return "other-error"
}
