package props

import (
	"bytes"
	stdflate "compress/flate"
	"fmt"
	"io"

	"github.com/intel/fastgo/verif/env"
	"github.com/intel/fastgo/verif/mc"
	"github.com/intel/fastgo/verif/pieces"
	"github.com/intel/fastgo/verif/refinflate"
)

// C10 — after Flush, all data written so far decodes from the bytes emitted so far.

func init() {
	register(&Prop{
		ID:       "C10",
		Category: "model_checking",
		Rule: "(a) every sequence over {Write(piece), Flush}^<=d (Flush first, repeated Flush, Flush with nothing pending included) for every accelerated flate setting and for gzip/zlib, closed at the end; " +
			"(b) every string over {a,b} up to length 9 / {a,b,c} up to 6 with a Flush after every prefix length (the bit position a block ends on is a function of the data); " +
			"(c) for every accelerated setting every data size 1..400 (3000 thorough) of three content kinds: Write, Flush, Write 100 more, Flush (the number of bits pending when the sync marker is written sweeps all its values); " +
			"(d) Flush at the points where the input buffer is exactly full (after 2W+258 bytes, then every further W+258): every non-empty subset of the first four points, three content kinds; " +
			"oracle at every Flush()==nil on the bytes emitted so far; non-trivial = at least one Flush happened after at least one byte was written",
		Assumptions: []string{"compress/flate and the reference inflater stand for 'any conforming inflater'"},
		Quick:       TierSpec{MaxDev: -1, Shards: 4, ShardDepth: 3, BudgetS: 600},
		Thorough:    TierSpec{MaxDev: -1, Shards: 8, ShardDepth: 3, BudgetS: 1700},
		Harness:     c10Harness,
	})
}

// checkFlushed applies the C10 oracle to the bytes emitted so far.
func checkFlushed(k WK, emitted, want []byte) (class, msg string) {
	kind := k.Kind
	if kind == "flate4k" || kind == "flatedict" {
		kind = "flate"
	}
	raw, _, perr := rawDeflate(kind, emitted)
	if perr != nil {
		return "container", perr.Error()
	}
	// standard library, fed only these bytes
	var r io.Reader
	if k.Dict != nil {
		r = stdflate.NewReaderDict(bytes.NewReader(raw), k.Dict)
	} else {
		r = stdflate.NewReader(bytes.NewReader(raw))
	}
	out, err := io.ReadAll(r)
	if err != io.ErrUnexpectedEOF {
		return "stdlib-" + errClass(err), fmt.Sprintf("compress/flate fed the flushed prefix ends with %v (want: asks for more input) after %d of %d bytes", err, len(out), len(want))
	}
	if !bytes.Equal(out, want) {
		return "stdlib-differs", "compress/flate decodes the flushed prefix to different data: " + diffDesc(out, want)
	}
	res := refinflate.Inflate(raw, refinflate.Options{Dict: k.Dict})
	if !res.Truncated {
		return "ref-" + res.Kind, fmt.Sprintf("reference inflater on the flushed prefix: %v (kind %q), want: more input needed", res.Err, res.Kind)
	}
	if !bytes.Equal(res.Out, want) {
		return "ref-differs", "reference inflater decodes the flushed prefix to different data: " + diffDesc(res.Out, want)
	}
	if !res.AtBoundary {
		return "not-at-boundary", "the flushed prefix does not end on a byte-aligned block boundary"
	}
	return "", ""
}

func c10Harness(cfg *Cfg) func(x *mc.Exec) {
	kinds := accKinds(cfg.Thorough)
	kinds = append(kinds, containerKinds([]int{-2, 1, 2, -1, 6})...)
	kinds = append(kinds, WK{Kind: "flate", Level: 0}, WK{Kind: "flate", Level: 6}, WK{Kind: "flatedict", Level: 1, Dict: dict20}, WK{Kind: "zlibdict", Level: -2, Dict: dict20})
	var tiny [][]byte
	if cfg.Thorough {
		tiny = append(pieces.Tiny(2, 9), pieces.Tiny(3, 6)...)
	} else {
		tiny = append(pieces.Tiny(2, 7), pieces.Tiny(3, 4)...)
	}
	depth := 3
	if cfg.Thorough {
		depth = 4
	}
	reduced := map[int][]pieces.Piece{}
	return func(x *mc.Exec) {
		ki := x.Choose(len(kinds), "cfg")
		k := kinds[ki]
		mode := x.Choose(4, "mode")
		sink := &env.Sink{}
		r, err := newRun(k, sink)
		if err != nil {
			x.Fail("C10 ctor "+k.Kind, "%s: %v", k, err)
			return
		}
		flush := func() bool {
			_, err, ok := r.do(x, "C10", opFlush, nil, "Flush")
			if !ok {
				return false
			}
			if err != nil {
				x.Fail("C10 flush-error "+k.Kind+accTag(k), "%s [%s]: Flush returned %v on a healthy destination", k, r.hist, err)
				return false
			}
			if len(r.data) > 0 {
				x.NonTrivial()
			}
			if cls, msg := checkFlushed(k, sink.Buf, r.data); cls != "" {
				x.Fail(fmt.Sprintf("C10 %s %s", k.Kind+accTag(k), cls), "%s [%s]: %s", k, r.hist, msg)
				return false
			}
			return true
		}
		switch mode {
		case 2: // every size 1..N of three content kinds, Flush, a little more, Flush: the bit position at which the
			// flushed block ends and the number of bits still pending in the bit buffer sweep all their values
			if !k.Accelerated() {
				return
			}
			N := 400
			if cfg.Thorough {
				N = 3000
			}
			ck := []string{"text", "r3", "rand"}[x.Choose(3, "content")]
			n := 1 + x.Choose(N, "size")
			d := ladderData(ck, cfg.Seed)
			if _, _, ok := r.do(x, "C10", opWrite, d[:n], fmt.Sprintf("W(%s,%d)", ck, n)); !ok {
				return
			}
			if !flush() {
				return
			}
			if _, _, ok := r.do(x, "C10", opWrite, d[n:n+100], "W(100 more)"); !ok {
				return
			}
			if !flush() {
				return
			}
		case 0:
			ti := x.Choose(len(tiny), "tiny")
			s := tiny[ti]
			// a Flush after every prefix length 0..len
			fp := x.Choose(len(s)+1, "flush-after")
			if _, _, ok := r.do(x, "C10", opWrite, s[:fp], fmt.Sprintf("W(%q)", s[:fp])); !ok {
				return
			}
			if !flush() {
				return
			}
			if _, _, ok := r.do(x, "C10", opWrite, s[fp:], fmt.Sprintf("W(%q)", s[fp:])); !ok {
				return
			}
			if !flush() {
				return
			}
		case 3:
			// Flush at the points where the input buffer is exactly full: the first time after T = 2W+258 bytes, then
			// after every further W+258; every non-empty subset of the first four such points, three content kinds
			T := k.Fill()
			Q := T - (T-258)/2
			pts := []int{T, T + Q, T + 2*Q, T + 3*Q}
			mask := 1 + x.Choose(15, "flush-at-points")
			ck := []string{"text", "rand", "r3"}[x.Choose(3, "content")]
			data := pieces.Make(ck, pts[3]+100, cfg.Seed+3)
			pos := 0
			for i, p := range pts {
				if mask&(1<<uint(i)) == 0 {
					continue
				}
				if _, _, ok := r.do(x, "C10", opWrite, data[pos:p], fmt.Sprintf("W(%s[%d:%d])", ck, pos, p)); !ok {
					return
				}
				pos = p
				if !flush() {
					return
				}
			}
			if _, _, ok := r.do(x, "C10", opWrite, data[pos:], fmt.Sprintf("W(%s[%d:])", ck, pos)); !ok {
				return
			}
		case 1:
			ps, ok := reduced[k.Fill()]
			if !ok {
				for _, p := range pieces.Reduced(k.Fill(), cfg.Seed) {
					if len(p.Data) > 0 { // no empty piece here
						ps = append(ps, p)
					}
				}
				reduced[k.Fill()] = ps
			}
			d := depth
			if !k.Accelerated() && d > 3 {
				d = 3
			}
			for step := 0; step < d; step++ {
				c := x.Choose(len(ps)+2, "op")
				if c == 0 {
					break
				}
				if c == 1 {
					if !flush() {
						return
					}
					continue
				}
				p := ps[c-2]
				_, err, ok := r.do(x, "C10", opWrite, p.Data, "W("+p.Name+")")
				if !ok {
					return
				}
				if err != nil {
					x.Fail("C10 write-error "+k.Kind+accTag(k), "%s [%s]: Write returned %v", k, r.hist, err)
					return
				}
			}
		}
		_, err, ok := r.do(x, "C10", opClose, nil, "Close")
		if !ok {
			return
		}
		if err != nil {
			x.Fail("C10 close-error "+k.Kind+accTag(k), "%s [%s]: Close returned %v", k, r.hist, err)
			return
		}
		x.Note(r.fp())
		if cls, msg := CheckStream(k, sink.Buf, r.data); cls != "" {
			x.Fail(fmt.Sprintf("C10 whole-stream %s %s", k.Kind+accTag(k), cls), "%s [%s]: %s", k, r.hist, msg)
		}
		x.Outcome(fmt.Sprintf("%s in=%d out=%d", k, len(r.data), len(sink.Buf)))
	}
}

var ladderCache = map[string][]byte{}

func ladderData(kind string, seed uint64) []byte {
	if d, ok := ladderCache[kind]; ok {
		return d
	}
	d := pieces.Make(kind, 3200, seed)
	ladderCache[kind] = d
	return d
}
