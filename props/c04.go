package props

import (
	"bufio"
	"bytes"
	"fmt"
	"io"

	fflate "github.com/intel/fastgo/compress/flate"
	"github.com/intel/fastgo/verif/env"
	"github.com/intel/fastgo/verif/mc"
)

// C04 — decoded output does not depend on how the compressed bytes arrive or are read.

func init() {
	register(&Prop{
		ID:       "C04",
		Category: "model_checking",
		Rule: "streams: ~35 short valid streams (every code shape, block type and transition) whole and cut at EVERY byte, plus long encoder-made streams whole and cut at a ladder; " +
			"environment: bufio sizes {16,17,32,64,327,328,329,512,4095,4096,4097,65536,1<<20} x delivery {full, 1,2,3,5,8,13,4096 bytes per call} x EOF {separate, with the last data} with the all-at-once Read policy, " +
			"and 12 Read-size policies x bufio {none,16,4096} (thorough: x all 13 bufio sizes x delivery {one call, 1, 13}); deviations: at ANY source call a short read of r bytes, r in {1,2,7,8,9,23,24,25,327,328,329}, up to the deviation bound (1 quick, 2 thorough); " +
			"window-fill family: streams whose literals, packed literal+length entries and copies straddle the point where the decoder's 64 KiB output window is full, delivered bytewise (plain and through a 16-byte bufio) and in EVERY two-piece split within [-8,+72) bytes of that point; " +
			"oracle: output bytes and final error identical to the all-at-once run; non-trivial = the run differs from the all-at-once run in at least one environment dimension",
		Assumptions: []string{"the all-at-once run (plain source delivering everything in one call, one large Read) is the reference"},
		Quick:       TierSpec{MaxDev: 1, Shards: 4, ShardDepth: 3, BudgetS: 600},
		Thorough:    TierSpec{MaxDev: 2, Shards: 8, ShardDepth: 3, BudgetS: 2400},
		Harness:     c04Harness,
	})
}

var bufioSizes = []int{16, 17, 32, 64, 327, 328, 329, 512, 4095, 4096, 4097, 65536, 1 << 20}
var chunkSizes = []int{0, 1, 2, 3, 5, 8, 13, 4096}
var shortLadder = []int{1, 2, 7, 8, 9, 23, 24, 25, 327, 328, 329}

var allReadPolicies = []env.ReadPolicy{
	env.PolicyAll, env.Policy1, {Name: "2", Sizes: []int{2}}, {Name: "3", Sizes: []int{3}}, env.Policy7, {Name: "8", Sizes: []int{8}},
	{Name: "257", Sizes: []int{257}}, env.Policy258, {Name: "259", Sizes: []int{259}}, env.Policy4096, {Name: "65536", Sizes: []int{65536}}, env.PolicyAlt,
}

type c04stream struct {
	name   string
	stream []byte
	long   bool
}

func c04Corpus(g *streamGen) []c04stream {
	var out []c04stream
	for _, s := range shortCorpus(g) {
		out = append(out, c04stream{s.name, s.stream, false})
	}
	for _, e := range g.encoderStreams() {
		if len(e.stream) > 20000 && (e.name == "std-L6(text-200001)" || e.name == "fast-flate/L1(r3-70001)" || e.name == "std-L0(rand-66000)" || e.name == "fast-flate/L-2(fib-140000)") {
			out = append(out, c04stream{e.name, e.stream, true})
		}
	}
	return out
}

func c04Harness(cfg *Cfg) func(x *mc.Exec) {
	g := newStreamGen(cfg)
	corpus := c04Corpus(g)
	type refKey struct{ s, cut int }
	type refVal struct {
		out []byte
		err error
	}
	refCache := map[refKey]refVal{}
	wfRef := map[string]refVal{}
	return func(x *mc.Exec) {
		if x.Choose(2, "family") == 1 {
			// window-fill family: the symbols that straddle the point where the decoder's output window is full,
			// delivered bytewise and in every two-piece split around the compressed position of that point
			// bytes before the fill point: 0..3 (the window is full inside the symbols), and 256..260 / 272..276 (the
			// symbols start where the assembly loop stops and hands over to the Go loop: 274 bytes before the window is
			// full, one maximal match further on)
			js := []int{0, 1, 2, 3, 256, 257, 258, 259, 260, 272, 273, 274, 275, 276}
			j := js[x.Choose(len(js), "bytes-before-fill")]
			nl := x.Choose(3, "literals-before-match")
			L := []int{3, 258}[x.Choose(2, "match-len")]
			d := []int{1, 17, 100, 4096}[x.Choose(4, "match-dist")]
			if j > 3 && (L != 258 || d != 17) {
				return
			}
			kind := x.Choose(2, "block-kind")
			lead := 0
			if j > 3 {
				lead = 120 // the assembly loop has been running for 30 (120) compressed bytes when it reaches the symbols
			}
			stream, name, at := g.windowFillStreamLead(65536, j, nl, L, d, kind, lead)
			ref, ok := wfRef[name]
			if !ok {
				o := fastFlate(stream, env.PolicyAll)
				if cls, msg := o.basicFaults(); cls != "" {
					x.Fail("C04 reference-run "+cls, "%s: %s", name, msg)
					return
				}
				ref = refVal{o.Out, o.Err}
				wfRef[name] = ref
			}
			// at = compressed offset at which the interesting block starts
			dm := x.Choose(3, "delivery")
			src := env.NewSource(stream)
			var source io.Reader = src
			desc := name
			switch dm {
			case 0:
				src.Chunk = 1
				src.ChunkAfter = at - 40
				desc += " delivery=bytewise-from-" + fmt.Sprint(at-40)
			case 1:
				src.Chunk = 1
				src.ChunkAfter = at - 40
				source = bufio.NewReaderSize(src, 16)
				desc += " delivery=bytewise-through-bufio16"
			case 2:
				k := at - 8 + x.Choose(80, "split")
				src.Bounds = []int{k}
				desc += fmt.Sprintf(" delivery=a-delivery-ends-at-%d", k)
			}
			var r io.Reader
			if _, isBuf := source.(*bufio.Reader); isBuf {
				r = resetFastFlateOn(source)
			} else {
				r = newFastFlateOn(source)
			}
			o := drainReader(r, env.PolicyAll)
			x.Note(o.FP)
			x.NonTrivial()
			if cls, msg := o.basicFaults(); cls != "" {
				x.Fail("C04 "+cls+" window-fill", "%s: %s", desc, msg)
				return
			}
			if errClass(o.Err) != errClass(ref.err) {
				x.Fail(fmt.Sprintf("C04 error-differs window-fill got=%s want=%s", errClass(o.Err), errClass(ref.err)), "%s: final error %v after %d bytes; all-at-once run: %v after %d bytes", desc, o.Err, len(o.Out), ref.err, len(ref.out))
				return
			}
			if !bytes.Equal(o.Out, ref.out) {
				x.Fail("C04 output-differs window-fill", "%s: %s (all-at-once run is 'want')", desc, diffDesc(o.Out, ref.out))
				return
			}
			x.Outcome("window-fill ok")
			return
		}
		si := x.Choose(len(corpus), "stream")
		cs := corpus[si]
		// cut: 0 = whole, else cut position
		var cuts []int
		if !cs.long {
			for c := 0; c < len(cs.stream); c++ {
				cuts = append(cuts, c)
			}
		} else {
			n := len(cs.stream)
			cuts = []int{1, 100, 4095, 4096, 4097, n / 2, n - 9, n - 1}
		}
		ci := x.Choose(len(cuts)+1, "cut")
		in := cs.stream
		cut := -1
		if ci > 0 {
			cut = cuts[ci-1]
			in = cs.stream[:cut]
		}
		rk := refKey{si, cut}
		ref, ok := refCache[rk]
		if !ok {
			o := fastFlate(in, env.PolicyAll)
			if cls, msg := o.basicFaults(); cls != "" {
				x.Fail("C04 reference-run "+cls, "%s cut=%d: %s", cs.name, cut, msg)
				return
			}
			ref = refVal{o.Out, o.Err}
			refCache[rk] = ref
		}
		mode := x.Choose(3, "env-mode")
		spec := srcSpec{Name: "src"}
		pol := env.PolicyAll
		devCalls := 0
		switch mode {
		case 0: // bufio x chunk x eof
			bs := bufioSizes
			if !cfg.Thorough && ci > 0 {
				bs = []int{16, 64, 328, 4096, 65536} // quick tier: cut streams through five of the thirteen bufio sizes
			}
			spec.Bufio = bs[x.Choose(len(bs), "bufio")]
			spec.Chunk = chunkSizes[x.Choose(len(chunkSizes), "chunk")]
			spec.EOFWithData = x.Choose(2, "eof-with-data") == 1
			if cs.long && spec.Chunk != 0 && spec.Chunk < 8 && spec.Bufio > 64 {
				return // long streams: tiny chunks only through tiny bufios (cost)
			}
		case 1: // read policies
			pol = allReadPolicies[x.Choose(len(allReadPolicies), "read-policy")]
			if cfg.Thorough {
				// thorough: full product Read policy x bufio size x delivery {one call, 1, 13}
				bs := append([]int{0}, bufioSizes...)
				spec.Bufio = bs[x.Choose(len(bs), "bufio")]
				spec.Chunk = []int{0, 1, 13}[x.Choose(3, "chunk")]
				if cs.long && spec.Chunk == 1 && spec.Bufio > 64 {
					return
				}
			} else {
				spec.Bufio = []int{0, 16, 4096}[x.Choose(3, "bufio")]
			}
			if cs.long && len(pol.Sizes) == 1 && pol.Sizes[0] < 7 {
				return
			}
		case 2: // short-read deviations
			spec.Bufio = []int{0, 16, 64, 4096}[x.Choose(4, "bufio")]
			devCalls = 40
			if cs.long {
				devCalls = 6
			}
		}
		r, src, _ := spec.open(in)
		if devCalls > 0 {
			src.D = x
			src.Short = shortLadder
			src.MaxDevCalls = devCalls
		}
		o := drainReader(r, pol)
		x.Note(o.FP)
		if mode != 0 || spec.Bufio != 0 || spec.Chunk != 0 {
			x.NonTrivial()
		}
		desc := fmt.Sprintf("%s cut=%d %s policy=%s", cs.name, cut, spec, pol.Name)
		site := fmt.Sprintf("mode=%d long=%v", mode, cs.long)
		if cls, msg := o.basicFaults(); cls != "" {
			x.Fail("C04 "+cls+" "+site, "%s: %s", desc, msg)
			return
		}
		if errClass(o.Err) != errClass(ref.err) {
			x.Fail(fmt.Sprintf("C04 error-differs %s got=%s want=%s", site, errClass(o.Err), errClass(ref.err)), "%s: final error %v after %d bytes; all-at-once run: %v after %d bytes", desc, o.Err, len(o.Out), ref.err, len(ref.out))
			return
		}
		if !bytes.Equal(o.Out, ref.out) {
			if d := len(o.Out) - len(ref.out); ref.err == io.ErrUnexpectedEOF && d >= -2 && d <= 2 &&
				(bytes.HasPrefix(o.Out, ref.out) || bytes.HasPrefix(ref.out, o.Out)) {
				x.Fail("C04 truncated-stream-tail-literals", "%s: a truncated stream yields %d bytes here and %d bytes in the all-at-once run before io.ErrUnexpectedEOF (the last literals of a multi-symbol table entry are delivered or not depending on how much input was visible when the block's tables were built)", desc, len(o.Out), len(ref.out))
				return
			}
			x.Fail("C04 output-differs "+site+" err="+errClass(ref.err), "%s: %s (all-at-once run is 'want')", desc, diffDesc(o.Out, ref.out))
			return
		}
		x.Outcome(fmt.Sprintf("%s cut=%d -> %d %s", cs.name, cut, len(o.Out), errClass(o.Err)))
	}
}

// newFastFlateOn returns a fastgo flate Reader on an arbitrary source through NewReader.
func newFastFlateOn(src io.Reader) io.Reader { return fflate.NewReader(src) }

// resetFastFlateOn returns a fastgo flate Reader attached to src through Reset.
func resetFastFlateOn(src io.Reader) io.Reader {
	r := fflate.NewReader(bufio.NewReader(bytes.NewReader(nil)))
	r.(fflate.Resetter).Reset(src, nil)
	return r
}
