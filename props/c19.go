package props

import (
	"bytes"
	"fmt"

	"github.com/intel/fastgo/verif/env"
	"github.com/intel/fastgo/verif/mc"
	"github.com/intel/fastgo/verif/pieces"
	"github.com/intel/fastgo/verif/refinflate"
)

// C19 — the 4 KiB-window writer never refers back more than 4096 bytes (32768 for the ordinary constructor).

func init() {
	register(&Prop{
		ID:       "C19",
		Category: "model_checking",
		Rule: "for every accelerated flate setting (4 KiB: levels 1,2,-1,3,6,9; 32 KiB: 1,2,-1): a block of length {4,8,258,1000} repeated at every distance in [W-3,W+3] ([W-40,W+40] and ten block lengths in thorough) and at W+2000, 2W-1, 2W, 2W+257, 65535..65537, 65536+W-1..+1, " +
			"placed at offsets before/after the first buffer slide and after the 64 KiB position wrap, written whole, in two Writes cut inside the repeat, with a Flush between original and repeat, or with original and repeat both ending at a Flush / at Close (the hand-finished tail of a buffer); periodic data with period W-1, W, W+1; " +
			"oracle: the reference inflater's maximum match distance over the output; non-trivial = the output contains at least one back-reference",
		Assumptions: []string{"the reference inflater reports the distance of every back-reference it decodes"},
		Quick:       TierSpec{MaxDev: -1, Shards: 4, ShardDepth: 3, BudgetS: 600},
		Thorough:    TierSpec{MaxDev: -1, Shards: 8, ShardDepth: 3, BudgetS: 1200},
		Harness:     c19Harness,
	})
}

func c19Harness(cfg *Cfg) func(x *mc.Exec) {
	var kinds []WK
	l4 := []int{1, 2, -1, 3, 6, 9}
	if cfg.Thorough {
		l4 = []int{1, 2, -1, 3, 4, 5, 6, 7, 8, 9}
	}
	for _, l := range l4 {
		kinds = append(kinds, WK{Kind: "flate4k", Level: l})
	}
	for _, l := range []int{1, 2, -1} {
		kinds = append(kinds, WK{Kind: "flate", Level: l})
	}
	blens := []int{4, 8, 258, 1000}
	if cfg.Thorough {
		blens = []int{4, 5, 8, 9, 16, 64, 258, 259, 1000, 5000}
	}
	return func(x *mc.Exec) {
		k := kinds[x.Choose(len(kinds), "cfg")]
		W := k.Window()
		T := k.Fill()
		dists := []int{}
		span := 3
		if cfg.Thorough {
			span = 40
		}
		for d := W - span; d <= W+span; d++ {
			dists = append(dists, d)
		}
		dists = append(dists, W+2000, 2*W-1, 2*W, 2*W+257, 65535, 65536, 65537, 65536+W-1, 65536+W, 65536+W+1)
		mode := x.Choose(2, "mode")
		var data []byte
		var name string
		cut := -1
		flushAt := -1
		flush2At := -1
		if mode == 0 {
			d := dists[x.Choose(len(dists), "dist")]
			bl := blens[x.Choose(len(blens), "blen")]
			// offsets: early, just before the first fill trigger, after a slide, after the 64K wrap
			offs := []int{10, T - d - bl/2, T + 300, 65536 + 100, 65536 - d + 1, 2*65536 + 7}
			off := offs[x.Choose(len(offs), "offset")]
			if off < 0 {
				off = 0
			}
			n := off + d + bl + 300
			data = pieces.Far(n, off, d, bl, cfg.Seed+uint64(d))
			name = fmt.Sprintf("far(n=%d,off=%d,d=%d,blen=%d)", n, off, d, bl)
			switch x.Choose(5, "pattern") {
			case 1:
				cut = off + d + bl/2
			case 2:
				flushAt = off + bl
			case 3:
				// original and repeat both end where the compressor finishes a buffer by hand (the last bytes before a
				// Flush / before Close are matched by other code than the bulk): Flush after the original, Close after the repeat
				flushAt = off + bl
				data = data[:off+d+bl]
				name += " ends-at-repeat"
			case 4: // Flush after the original and Flush after the repeat
				flushAt = off + bl
				flush2At = off + d + bl
				name += " flush-after-repeat"
			}
		} else {
			ps := []int{W - 1, W, W + 1}
			p := ps[x.Choose(len(ps), "period")]
			ns := []int{2*p + 10, T + 2*p, 65536 + 3*p}
			n := ns[x.Choose(len(ns), "size")]
			data = pieces.Per(n, p, cfg.Seed)
			name = fmt.Sprintf("per(n=%d,p=%d)", n, p)
			if x.Choose(2, "pattern") == 1 {
				cut = n / 2
			}
		}
		sink := &env.Sink{}
		r, err := newRun(k, sink)
		if err != nil {
			x.Fail("C19 ctor", "%s: %v", k, err)
			return
		}
		pos := 0
		if cut > 0 && cut < len(data) {
			if _, _, ok := r.do(x, "C19", opWrite, data[:cut], fmt.Sprintf("W(..%d)", cut)); !ok {
				return
			}
			pos = cut
		}
		if flushAt > 0 && flushAt < len(data) {
			if _, _, ok := r.do(x, "C19", opWrite, data[:flushAt], fmt.Sprintf("W(..%d)", flushAt)); !ok {
				return
			}
			if _, _, ok := r.do(x, "C19", opFlush, nil, "Flush"); !ok {
				return
			}
			pos = flushAt
		}
		if flush2At > pos && flush2At < len(data) {
			if _, _, ok := r.do(x, "C19", opWrite, data[pos:flush2At], fmt.Sprintf("W(%d..%d)", pos, flush2At)); !ok {
				return
			}
			if _, _, ok := r.do(x, "C19", opFlush, nil, "Flush"); !ok {
				return
			}
			pos = flush2At
		}
		if _, _, ok := r.do(x, "C19", opWrite, data[pos:], fmt.Sprintf("W(%d..)", pos)); !ok {
			return
		}
		_, err, ok := r.do(x, "C19", opClose, nil, "Close")
		if !ok {
			return
		}
		if err != nil {
			x.Fail("C19 close-error", "%s %s: %v", k, name, err)
			return
		}
		x.Note(r.fp())
		res := refinflate.Inflate(sink.Buf, refinflate.Options{})
		if res.Err != nil || !bytes.Equal(res.Out, data) {
			x.Fail("C19 undecodable "+k.Kind+accTag(k), "%s %s [%s]: output does not decode to the data (%v)", k, name, r.hist, res.Err)
			return
		}
		if res.MaxDist > 0 {
			x.NonTrivial()
		}
		if res.MaxDist > W {
			x.Fail(fmt.Sprintf("C19 distance>%d %s", W, k.Kind+accTag(k)), "%s %s [%s]: back-reference with distance %d in the output", k, name, r.hist, res.MaxDist)
		}
		x.Outcome(fmt.Sprintf("%s %s maxdist=%d", k, name, res.MaxDist))
	}
}
