package props

import (
	"bufio"
	"bytes"
	"errors"
	"fmt"
	"io"
	"strings"

	"github.com/intel/fastgo/verif/env"
	"github.com/intel/fastgo/verif/mc"
)

// C15 — a failing source is reported as such and never as success or corruption.

func init() {
	register(&Prop{
		ID:       "C15",
		Category: "fault_enumeration",
		Rule: "streams: the short flate corpus, long encoder-made flate streams, the gzip/zlib container corpus (single and two members, dictionaries); for EVERY k in 0..|s| (short streams; a ladder for long ones) the source delivers k bytes and then fails with a fresh error value - or (short streams, whole delivery) an error that wraps io.EOF, bufio.ErrBufferFull, io.ErrNoProgress, io.ErrUnexpectedEOF - alone or together with the last bytes; " +
			"source in {plain, bufio 16, bufio 4096} x delivery {one call, 3 bytes per call} x Read policy {1 MiB, 7, 1}; " +
			"oracle: the Reader (or its constructor) eventually returns exactly that error value, every byte handed out before is a prefix of the true plaintext, three further Reads return the same error and no data, and the Reader does return (a source asked 1000 more times after it failed is a hang); at k = |s| a clean io.EOF is also admissible when the stream is complete; " +
			"non-trivial = 0 < k < |s|; distinct = distinct (stream, k, with-data, source, delivery, policy)",
		Assumptions: []string{"the source keeps returning the same error once it has failed"},
		Quick:       TierSpec{MaxDev: -1, Shards: 4, ShardDepth: 3, BudgetS: 600},
		Thorough:    TierSpec{MaxDev: -1, Shards: 8, ShardDepth: 3, BudgetS: 1200},
		Harness:     c15Harness,
	})
}

type c15stream struct {
	name    string
	kind    RK
	bytes   []byte
	payload []byte
	long    bool
}

func c15Harness(cfg *Cfg) func(x *mc.Exec) {
	g := newStreamGen(cfg)
	var streams []c15stream
	for _, s := range shortCorpus(g) {
		p, _ := stdFlate(s.stream)
		streams = append(streams, c15stream{s.name, RK{Kind: "flate"}, s.stream, p, false})
	}
	for _, e := range g.encoderStreams() {
		if e.name == "std-L6(text-200001)" || e.name == "fast-flate/L1(r3-70001)" || e.name == "std-L0(rand-66000)" {
			p, _ := stdFlate(e.stream)
			streams = append(streams, c15stream{e.name, RK{Kind: "flate"}, e.stream, p, true})
		}
	}
	for _, c := range containerCorpus(cfg.Seed, true) {
		streams = append(streams, c15stream{c.name, c.kind, c.bytes, c.payload, len(c.bytes) > 2000})
	}
	wfS, wfName, wfAt := g.windowFillStreamAt(65536, 0, 2, 258, 17, 1)
	wfP, _ := stdFlate(wfS)
	streams = append(streams, c15stream{"flate:" + wfName, RK{Kind: "flate"}, wfS, wfP, true})
	bufios := []int{0, 16, 4096}
	chunks := []int{0, 3}
	pols := []env.ReadPolicy{env.PolicyAll, env.Policy7, env.Policy1}
	if cfg.Thorough {
		bufios = []int{0, 16, 17, 64, 328, 4096, 65536}
		chunks = []int{0, 1, 3, 13}
		pols = []env.ReadPolicy{env.PolicyAll, env.Policy4096, env.Policy258, env.Policy7, env.Policy1, env.PolicyAlt}
	}
	return func(x *mc.Exec) {
		st := streams[x.Choose(len(streams), "stream")]
		n := len(st.bytes)
		var ks []int
		if !st.long {
			for k := 0; k <= n; k++ {
				ks = append(ks, k)
			}
		} else {
			ks = []int{0, 1, 9, 10, 11, 18, 100, 4095, 4096, 4097, 8192, n / 2, n - 9, n - 8, n - 4, n - 1, n}
			if strings.HasPrefix(st.name, "flate:window-fill") {
				for k := wfAt - 4; k < wfAt+40; k++ {
					ks = append(ks, k) // every position around the symbols that straddle the full output window
				}
			}
		}
		k := ks[x.Choose(len(ks), "fail-after")]
		withData := x.Choose(2, "error-with-data") == 1
		bsz := bufios[x.Choose(len(bufios), "bufio")]
		chunk := chunks[x.Choose(len(chunks), "chunk")]
		pol := pols[x.Choose(len(pols), "read-policy")]
		if st.long && (pol.Name != "1MiB" || chunk != 0 && bsz == 4096) {
			return // cost: long streams with the all-at-once policy only
		}
		if k > 0 && k < n {
			x.NonTrivial()
		}
		// the error value: a fresh one, or (short streams, whole delivery) one of the values a Reader might confuse with
		// its own conditions: an error that wraps io.EOF, bufio's and io's sentinels
		E := env.NewErr(fmt.Sprintf("k=%d", k))
		evName := "fresh"
		if !st.long && chunk == 0 && pol.Name == env.PolicyAll.Name {
			switch x.Choose(5, "error-value") {
			case 1:
				E, evName = fmt.Errorf("fetch body: %w", io.EOF), "wraps-io.EOF"
			case 2:
				E, evName = bufio.ErrBufferFull, "bufio.ErrBufferFull"
			case 3:
				E, evName = io.ErrNoProgress, "io.ErrNoProgress"
			case 4:
				E, evName = io.ErrUnexpectedEOF, "io.ErrUnexpectedEOF"
			}
		}
		src := env.NewSource(st.bytes)
		src.Limit = k
		src.Term = env.TermErr
		src.Err = E
		src.WithData = withData
		src.Chunk = chunk
		if k == n {
			// Limit == len(Data) means "no limit" to the Source: append a byte that must never be delivered
			src.Data = append(append([]byte{}, st.bytes...), 0xAA)
		}
		var source io.Reader = src
		if bsz > 0 {
			source = bufio.NewReaderSize(src, bsz)
		}
		desc := fmt.Sprintf("%s (%s, %d bytes): source fails after %d bytes with %s (with data=%v) bufio=%d chunk=%d policy=%s", st.name, st.kind, n, k, evName, withData, bsz, chunk, pol.Name)
		site := st.kind.Kind
		var r io.Reader
		var oerr error
		if pi := Guard(func() { r, oerr = st.kind.OpenFast(source) }); pi != nil {
			x.Fail("C15 panic "+pi.Site, "%s: %s", desc, pi)
			return
		}
		if oerr != nil {
			if !errors.Is(oerr, E) {
				x.Fail(fmt.Sprintf("C15 constructor-masks-error %s got=%s", site, errClass(oerr)), "%s: constructor returned %v instead of the source's error", desc, oerr)
				return
			}
			x.Outcome("constructor: E")
			return
		}
		o := drainReader(r, pol)
		x.Note(o.FP)
		if o.Panic != nil {
			if sp, ok := o.Panic.Val.(env.Spin); ok {
				x.Fail(fmt.Sprintf("C15 asks-failed-source-forever %s error=%s", site, evName), "%s: the Reader never returned; it asked the failed source %d more times", desc, sp.Calls)
				return
			}
		}
		if cls, msg := o.basicFaults(); cls != "" {
			x.Fail("C15 "+cls+" "+site, "%s: %s", desc, msg)
			return
		}
		if len(o.Out) > len(st.payload) || !bytes.Equal(o.Out, st.payload[:len(o.Out)]) {
			x.Fail("C15 wrong-data "+site, "%s: %s", desc, diffDesc(o.Out, st.payload))
			return
		}
		if !errors.Is(o.Err, E) {
			complete := k == n && o.Err == io.EOF && len(o.Out) == len(st.payload)
			// gzip in multistream mode must look for a next member and therefore meets the error even at k == n
			if !complete {
				x.Fail(fmt.Sprintf("C15 source-error-masked %s got=%s at-end=%v error=%s", site, errClass(o.Err), k == n, evName), "%s: Reader ended with %v after %d of %d bytes instead of the source's error", desc, o.Err, len(o.Out), len(st.payload))
				return
			}
		}
		if s := o.sticky(); s != "" {
			x.Fail("C15 error-not-sticky "+site, "%s: %s", desc, s)
			return
		}
		x.Outcome(fmt.Sprintf("%s -> %d bytes then %s", site, len(o.Out), errClass2(o.Err, E)))
	}
}
