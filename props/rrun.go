package props

import (
	"bufio"
	"bytes"
	stdflate "compress/flate"
	"fmt"
	"io"

	fflate "github.com/intel/fastgo/compress/flate"
	"github.com/intel/fastgo/verif/env"
	"github.com/intel/fastgo/verif/introspect"
	"github.com/intel/fastgo/verif/refinflate"
)

// readOutcome is what reading a stream to its first error produced.
type readOutcome struct {
	Out   []byte
	Err   error
	Res   env.ReadResult
	Panic *PanicInfo
	// Again: errors of three further Reads and the bytes they returned
	AgainErrs  []error
	AgainBytes int
	FP         uint64 // cheap fingerprint (scalars only) of the Reader's private state after the first error
}

const maxOut = 8 << 20

// drainReader reads r to its first error with the policy, then three more times.
func drainReader(r io.Reader, pol env.ReadPolicy) (o readOutcome) {
	o.Panic = Guard(func() {
		o.Res = env.Drain(r, pol, maxOut)
		o.Out, o.Err = o.Res.Out, o.Res.Err
		if o.Res.Livelock || o.Res.Overflow || o.Res.BadCount != "" {
			return
		}
		o.FP = introspect.FingerprintCheap(r)
		buf := make([]byte, 64)
		for i := 0; i < 3; i++ {
			n, err := r.Read(buf)
			o.AgainBytes += n
			o.AgainErrs = append(o.AgainErrs, err)
		}
	})
	return
}

// fastFlate reads a raw DEFLATE stream with fastgo's Reader from a plain io.Reader source.
func fastFlate(stream []byte, pol env.ReadPolicy) readOutcome {
	var r io.Reader
	if pi := Guard(func() { r = fflate.NewReader(env.NewSource(stream)) }); pi != nil {
		return readOutcome{Panic: pi}
	}
	return drainReader(r, pol)
}

// stdFlate reads with compress/flate.
func stdFlate(stream []byte) ([]byte, error) {
	return io.ReadAll(stdflate.NewReader(bytes.NewReader(stream)))
}

// sticky checks that after the first error every further Read returns that same error and no data.
func (o *readOutcome) sticky() string {
	if o.AgainBytes != 0 {
		return fmt.Sprintf("%d bytes returned after the first error %v", o.AgainBytes, o.Err)
	}
	for i, e := range o.AgainErrs {
		if e != o.Err && !(e != nil && o.Err != nil && e.Error() == o.Err.Error()) {
			return fmt.Sprintf("Read #%d after the first error returned %v, first error was %v", i+1, e, o.Err)
		}
	}
	return ""
}

// basicReaderFaults reports problems that violate every reader property.
func (o *readOutcome) basicFaults() (class, msg string) {
	switch {
	case o.Panic != nil:
		return "panic " + o.Panic.Site, o.Panic.String()
	case o.Res.Livelock:
		return "livelock", "Read returned (0, nil) 1000 times in a row"
	case o.Res.Overflow:
		return "runaway-output", fmt.Sprintf("more than %d bytes of output", maxOut)
	case o.Res.BadCount != "":
		return "bad-count", o.Res.BadCount
	}
	return "", ""
}

// refOf runs the reference inflater (permissive).
func refOf(stream []byte) *refinflate.Result {
	return refinflate.Inflate(stream, refinflate.Options{MaxOut: maxOut})
}

// srcKinds used by the reader-side checks: how the compressed bytes reach the Reader.
type srcSpec struct {
	Name        string
	Bufio       int // 0 = plain io.Reader; >0 = *bufio.Reader of that size handed to Reset
	Chunk       int
	EOFWithData bool
}

func (s srcSpec) String() string {
	return fmt.Sprintf("%s(bufio=%d,chunk=%d,eofWithData=%v)", s.Name, s.Bufio, s.Chunk, s.EOFWithData)
}

// open returns a fastgo flate Reader over the source as the spec says, plus the source.
func (s srcSpec) open(stream []byte) (io.Reader, *env.Source, *bufio.Reader) {
	src := env.NewSource(stream)
	src.Chunk = s.Chunk
	src.WithData = s.EOFWithData
	if s.Bufio > 0 {
		br := bufio.NewReaderSize(src, s.Bufio)
		r := fflate.NewReader(bytes.NewReader(nil))
		r.(fflate.Resetter).Reset(br, nil)
		return r, src, br
	}
	return fflate.NewReader(src), src, nil
}
