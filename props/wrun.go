package props

import (
	"fmt"

	"github.com/intel/fastgo/verif/env"
	"github.com/intel/fastgo/verif/introspect"
	"github.com/intel/fastgo/verif/mc"
)

// wrun is one fastgo Writer under test with guard zones and panic capture.
type wrun struct {
	k      WK
	sink   *env.Sink
	w      WC
	g      *introspect.Guards
	data   []byte // data accepted by Write since construction / Reset
	hist   string
	closed bool
	// scratch is the caller's buffer: every Write gets its data in this one buffer (the io.Copy pattern), and the
	// buffer is overwritten as soon as Write returns. A Writer may not keep a reference to it (io.Writer contract);
	// one that does compresses garbage and fails the round-trip oracles.
	scratch []byte
}

const (
	opWrite = iota
	opFlush
	opClose
	opReset
)

func newRun(k WK, sink *env.Sink) (*wrun, error) {
	var w WC
	var err error
	if pi := Guard(func() { w, err = k.Fast(sink) }); pi != nil {
		return nil, fmt.Errorf("constructor panics: %s", pi)
	}
	if err != nil {
		return nil, err
	}
	r := &wrun{k: k, sink: sink, w: w}
	r.g = introspect.Install(w)
	return r, nil
}

// do executes one operation; problems that violate every property (panic,
// guard zone overwritten, impossible byte count) are reported through x.Fail
// with the given property prefix and make ok false.
func (r *wrun) do(x *mc.Exec, prop string, op int, data []byte, name string) (n int, err error, ok bool) {
	r.hist += name + " "
	pi := Guard(func() {
		switch op {
		case opWrite:
			if len(data) == 0 {
				n, err = r.w.Write(data)
				break
			}
			if cap(r.scratch) < len(data) {
				r.scratch = make([]byte, len(data))
			}
			buf := r.scratch[:len(data)]
			copy(buf, data)
			n, err = r.w.Write(buf)
			for i := range buf {
				buf[i] = 0xA5
			}
		case opFlush:
			err = r.w.Flush()
		case opClose:
			err = r.w.Close()
		}
	})
	x.Logf("%s -> n=%d err=%v sink=%d bytes/%d calls", name, n, err, len(r.sink.Buf), r.sink.Calls)
	if pi != nil {
		x.Fail(fmt.Sprintf("%s panic %s op=%s", prop, r.k.Kind+accTag(r.k), opName(op)), "%s after [%s] panics: %s", r.k, r.hist, pi)
		return n, err, false
	}
	if z := r.g.Check(); z != "" {
		x.Fail(fmt.Sprintf("%s guard-zone %s %s", prop, r.k.Kind+accTag(r.k), z), "%s after [%s]: store outside internal buffer %s", r.k, r.hist, z)
		return n, err, false
	}
	if op == opWrite {
		if n < 0 || n > len(data) || (err == nil && n != len(data)) {
			x.Fail(fmt.Sprintf("%s write-count %s", prop, r.k.Kind+accTag(r.k)), "%s after [%s]: Write(len %d) returned n=%d err=%v", r.k, r.hist, len(data), n, err)
			return n, err, false
		}
		if err == nil {
			r.data = append(r.data, data...)
		}
	}
	if op == opClose && err == nil {
		r.closed = true
	}
	return n, err, true
}

func (r *wrun) reset(sink *env.Sink) *PanicInfo {
	r.hist += "Reset "
	r.sink = sink
	r.data = nil
	r.closed = false
	return Guard(func() { r.w.Reset(sink) })
}

func opName(op int) string {
	switch op {
	case opWrite:
		return "Write"
	case opFlush:
		return "Flush"
	case opClose:
		return "Close"
	}
	return "Reset"
}

func (r *wrun) fp() uint64 {
	return introspect.Mix(introspect.Fingerprint(r.w), introspect.Bytes(r.sink.Buf), introspect.Bytes(r.data))
}

// accKinds are the configurations in which fastgo's own compressors run.
func accKinds(thorough bool) []WK {
	ks := []WK{}
	for _, l := range []int{1, 2, -1, -2} {
		ks = append(ks, WK{Kind: "flate", Level: l})
	}
	for _, l := range []int{1, 2, -1, -2, 3, 9} {
		ks = append(ks, WK{Kind: "flate4k", Level: l})
	}
	if thorough {
		for _, l := range []int{4, 5, 6, 7, 8} {
			ks = append(ks, WK{Kind: "flate4k", Level: l})
		}
	}
	return ks
}

var dict20 = []byte("hello world, hello dictionary")[:20]

func dict40k() []byte {
	b := make([]byte, 0, 40000)
	for len(b) < 40000 {
		b = append(b, []byte("the quick brown fox jumps over the lazy dog 0123456789 ")...)
	}
	return b[:40000]
}

// allFlateKinds: every setting the flate constructors accept.
func allFlateKinds(thorough bool) []WK {
	ks := accKinds(true)
	for _, l := range []int{0, 3, 4, 5, 6, 7, 8, 9} {
		ks = append(ks, WK{Kind: "flate", Level: l})
	}
	ks = append(ks, WK{Kind: "flate4k", Level: 0})
	d40 := dict40k()
	for _, l := range []int{-2, -1, 0, 1, 2, 6, 9} {
		ks = append(ks, WK{Kind: "flatedict", Level: l, Dict: dict20})
		if thorough || l == 1 || l == -2 {
			ks = append(ks, WK{Kind: "flatedict", Level: l, Dict: d40})
		}
	}
	return ks
}

// containerKinds: gzip and zlib at the given levels.
func containerKinds(levels []int) []WK {
	var ks []WK
	for _, l := range levels {
		ks = append(ks, WK{Kind: "gzip", Level: l}, WK{Kind: "zlib", Level: l})
	}
	return ks
}
