package props

import (
	"bufio"
	"bytes"
	"fmt"
	"io"
	"strings"

	stdflate "compress/flate"

	fflate "github.com/intel/fastgo/compress/flate"
	fgzip "github.com/intel/fastgo/compress/gzip"
	fzlib "github.com/intel/fastgo/compress/zlib"
	"github.com/intel/fastgo/verif/env"
	"github.com/intel/fastgo/verif/mc"
	"github.com/intel/fastgo/verif/pieces"
	"github.com/intel/fastgo/verif/synth"
)

// C13 — Reader.Reset makes a used Reader indistinguishable from a new one.

func init() {
	register(&Prop{
		ID:       "C13",
		Category: "model_checking",
		Rule: "first life: a stream in {70 KB text, 300 B, a stream ending in a corrupt-input error, a truncated stream, streams cut inside a dynamic header / inside a stored block's length field / inside its payload, a 70 KB stored stream, every stream of the C03 fault catalogue read to its error, streams started through Reset(src, dict) with a 20- or 40000-byte dictionary (70 KB: the window slides over the place of the dictionary)} x read history in {nothing read, 1 byte, 10 bytes, all but the last byte, to the end/error, exactly 65535 / 65536 bytes (output window full)} x Read size {1 MiB, 7}; optionally Close (the pooled-Reader pattern); then Reset(second source [, dictionary]), while the fresh reference Reader already exists (two instances alive at once); " +
			"second life: every stream of the short corpus, malformed streams whose back-references reach 1, 2, 100 and 32768 bytes before their own start, containers of the same kind, raw streams with a preset dictionary of 20 and of 40000 bytes (only the last 32 KiB count; copies from its end, from 32000 back and from the part out of reach; malformed back-references into and beyond the dictionary) through flate's Reset(src, dict) against NewReaderDict, and for zlib every combination {first stream with/without dictionary} x {second with/without} incl. two different dictionaries of one length; every dictionary is handed over in one and the same caller-owned slice that is overwritten after the call; flate, gzip (also member stepping, and Multistream(false) set in the first life only), zlib; second source plain, a 64-byte bufio, one byte per call, or one byte per call through a 16-byte bufio; " +
			"first source plain, or a 64-byte or default-size *bufio.Reader owned by the caller (then also with a life before it on a plain source: three sources in a row); oracle: bytes and kind of error of the second life identical to a fresh Reader on the same input, and the first source untouched after Reset (no further Read call; the caller still reads from it exactly what was left); non-trivial = the first life decoded at least one byte",
		Assumptions: []string{"a freshly constructed Reader is the reference model"},
		Quick:       TierSpec{MaxDev: -1, Shards: 4, ShardDepth: 3, BudgetS: 600},
		Thorough:    TierSpec{MaxDev: -1, Shards: 8, ShardDepth: 3, BudgetS: 1200},
		Harness:     c13Harness,
	})
}

type c13life struct {
	name   string
	stream []byte
	dict   []byte
}

func stdDeflate(data []byte, level int) []byte {
	sink := &env.Sink{}
	w, _ := WK{Kind: "flate", Level: level}.Std(sink)
	w.Write(data)
	w.Close()
	return sink.Buf
}

func backrefStreams() []namedStream {
	var out []namedStream
	for _, k := range []int{0, 3} {
		for _, beyond := range []int{1, 2, 100, 32768} {
			d := k + beyond
			if d > 32768 {
				d = 32768
			}
			var syms []synth.Sym
			for i := 0; i < k; i++ {
				syms = append(syms, synth.Sym{Kind: synth.SymLit, Lit: 'x'})
			}
			syms = append(syms, synth.Sym{Kind: synth.SymMatch, Len: 10, Dist: d})
			for i := 0; i < 60; i++ {
				syms = append(syms, synth.Sym{Kind: synth.SymLit, Lit: 'y'})
			}
			out = append(out, namedStream{fmt.Sprintf("backref(%d literals, then distance %d)", k, d), synth.Build(synth.Block{Final: true, Type: 1, Syms: syms})})
		}
	}
	return out
}

// c13first is the source of the first life: a plain reader or a *bufio.Reader that belongs to the caller. It is
// snapshotted right before Reset; nothing the Reader does afterwards may touch it: no further call, and what the
// caller then reads from it is exactly what was left (buffered bytes, then the rest of the underlying data).
type c13first struct {
	src      *env.Source
	br       *bufio.Reader
	calls    int
	expected []byte
}

func newC13first(data []byte, mode int) *c13first {
	f := &c13first{src: env.NewSource(data)}
	switch mode {
	case 1:
		f.br = bufio.NewReaderSize(f.src, 64)
	case 2:
		f.br = bufio.NewReader(f.src)
	}
	return f
}

func (f *c13first) reader() io.Reader {
	if f.br != nil {
		return f.br
	}
	return f.src
}

func (f *c13first) snapshot() {
	f.calls = f.src.Calls
	f.expected = nil
	if f.br != nil {
		p, _ := f.br.Peek(f.br.Buffered())
		f.expected = append(f.expected, p...)
	}
	f.expected = append(f.expected, f.src.Data[f.src.Off:]...)
}

// verify returns a description of what happened to the first source after Reset, or "".
func (f *c13first) verify() string {
	if f.src.Calls != f.calls {
		return fmt.Sprintf("%d more Read call(s) on the earlier source after Reset", f.src.Calls-f.calls)
	}
	rest, _ := io.ReadAll(f.reader())
	if !bytes.Equal(rest, f.expected) {
		return fmt.Sprintf("the caller's reader of the earlier source now delivers %d bytes %q..., it held %d bytes %q... at Reset", len(rest), head(rest, 24), len(f.expected), head(f.expected, 24))
	}
	return ""
}

func head(b []byte, n int) []byte {
	if len(b) > n {
		return b[:n]
	}
	return b
}

var c13firstNames = []string{"plain", "caller-bufio64", "caller-bufio4096"}

func c13Harness(cfg *Cfg) func(x *mc.Exec) {
	g := newStreamGen(cfg)
	text70 := pieces.Text(70000, cfg.Seed+9)
	s70 := stdDeflate(text70, 6)
	s300 := stdDeflate(pieces.Text(300, cfg.Seed), 6)
	corrupt := append([]byte{}, s70...)
	corrupt[len(corrupt)/2] ^= 0x55
	stored70 := stdDeflate(text70, 0)
	firstFlate := []c13life{{"70K-text", s70, nil}, {"300B", s300, nil}, {"corrupt-70K", corrupt, nil}, {"truncated-70K", s70[:len(s70)*2/3], nil},
		// first lives that stop with every kind of carry-over state set: inside a dynamic header (header staging),
		// inside a stored block (remaining length), inside the stored length field
		{"cut-inside-dynamic-header", s70[:10], nil}, {"cut-inside-dynamic-header-40", s70[:40], nil}, {"stored-70K", stored70, nil},
		{"cut-inside-stored-length", stored70[:3], nil}, {"cut-inside-stored-payload", stored70[:1000], nil},
		{"300B+trailing-bytes", append(append([]byte{}, s300...), "TRAILING BYTES THAT BELONG TO THE CALLER OF THE FIRST LIFE"...), nil}}
	// first lives that end in every kind of rejected header/symbol (the fault catalogue of C03, first-block and
	// after-a-fixed-block positions): whatever a rejected block left half-built must not survive Reset
	for _, f := range singleFaults() {
		if strings.HasSuffix(f.name, " bare") {
			firstFlate = append(firstFlate, c13life{"fault:" + strings.TrimSuffix(f.name, " bare"), f.stream, nil})
		}
	}
	if cfg.Thorough {
		// thorough: every short corpus stream cut at every byte as a first life (read to its error)
		for _, cs := range shortCorpus(g) {
			for c := 1; c < len(cs.stream); c++ {
				firstFlate = append(firstFlate, c13life{fmt.Sprintf("fault:cut(%s,%d)", cs.name, c), cs.stream[:c], nil})
			}
		}
	}
	var secondFlate []namedStream
	secondFlate = append(secondFlate, shortCorpus(g)...)
	secondFlate = append(secondFlate, backrefStreams()...)
	secondFlate = append(secondFlate, namedStream{"empty-input", nil}, namedStream{"70K-text", s70})
	conts := containerCorpus(cfg.Seed, false)
	var gz, zl []container
	for _, c := range conts {
		if c.kind.Kind == "gzip" {
			gz = append(gz, c)
		} else {
			zl = append(zl, c)
		}
	}
	// malformed payloads inside containers
	for _, b := range backrefStreams()[:4] {
		zb := append([]byte{0x78, 0x9c}, b.stream...)
		zb = append(zb, 0, 0, 0, 1)
		zl = append(zl, container{name: "zlib-" + b.name, kind: RK{Kind: "zlib"}, bytes: zb})
		gb := append([]byte{0x1f, 0x8b, 8, 0, 0, 0, 0, 0, 0, 255}, b.stream...)
		gb = append(gb, 0, 0, 0, 0, 0, 0, 0, 0)
		gz = append(gz, container{name: "gzip-" + b.name, kind: RK{Kind: "gzip", Multi: true}, bytes: gb})
	}
	dictText := []byte("hello world, hello dictionary, hello again and again")
	zl = append(zl, container{name: "zlib-dict-needed-but-missing", kind: RK{Kind: "zlib"}, bytes: zlibStream(dictText, 6, dict20)})
	// a second dictionary of the same length with other contents (the caller's one dictionary buffer, rewritten)
	dict20b := []byte("HELLO WORLD, HELLO DICTIONARY")[:20]
	dictTextB := []byte("HELLO WORLD, HELLO DICTIONARY, HELLO AGAIN AND AGAIN")
	zl = append(zl, container{name: "zlib-dict20b", kind: RK{Kind: "zlib", Dict: dict20b}, bytes: zlibStream(dictTextB, 6, dict20b), payload: dictTextB})
	// a dictionary longer than the 32 KiB window: only its last 32 KiB count. The payload copies from the end of the
	// dictionary, from just inside the window (32000 back) and from the part that is out of reach.
	d40 := pieces.Rand(40000, cfg.Seed+40) // incompressible: the stream is short only if it copies from the dictionary
	pl := append(append(append(append([]byte{}, d40[37000:39990]...), d40[8000:9000]...), d40[100:700]...), []byte(" and fresh text after the dictionary part")...)
	zl = append(zl, container{name: "zlib-dict40000", kind: RK{Kind: "zlib", Dict: d40}, bytes: zlibStream(pl, 6, d40), payload: pl})
	if len(zlibStream(pl, 6, d40))+100 > len(zlibStream(pl, 6, nil)) {
		panic(mc.HarnessError{Msg: "C13: the 40000-byte dictionary case does not refer to its dictionary"})
	}
	// raw DEFLATE streams that need a dictionary (flate's Reset(src, dict) against NewReaderDict)
	stdDeflateDict := func(data []byte, dict []byte) []byte {
		var b bytes.Buffer
		w, err := stdflate.NewWriterDict(&b, 6, dict)
		if err != nil {
			panic(err)
		}
		w.Write(data)
		w.Close()
		return b.Bytes()
	}
	secondFlateDict := []c13life{
		{"dict20-stream", stdDeflateDict(dictText, dict20), dict20},
		{"dict40000-stream", stdDeflateDict(pl, d40), d40},
		{"300B-with-unneeded-dict", s300, dict20},
		{"backref-into-dict20", backrefStreams()[0].stream, dict20},
		{"backref-32768-into-dict40000", backrefStreams()[3].stream, d40},
		{"backref-beyond-dict20", backrefStreams()[2].stream, dict20},
	}
	// first lives that were themselves started through Reset(src, dict) (the Reader of a connection that uses one
	// shared dictionary for every message): long enough to slide the window over the place where the dictionary was
	// put, and short; the second life may get the very same dictionary slice again
	firstFlate = append(firstFlate,
		c13life{"70K-text-after-Reset-with-dict40000", stdDeflateDict(text70, d40), d40},
		c13life{"70K-text-after-Reset-with-dict20", stdDeflateDict(text70, dict20), dict20},
		c13life{"dict40000-stream-after-Reset-with-dict40000", stdDeflateDict(pl, d40), d40})
	histories := []string{"nothing", "1 byte", "10 bytes", "all-but-last", "to-end", "65535 bytes", "65536 bytes (output window full)"}
	pols := []env.ReadPolicy{env.PolicyAll, env.Policy7}
	firstRead := func(r io.Reader, hist int, total int) {
		buf := make([]byte, 4096)
		switch hist {
		case 1:
			io.ReadFull(r, buf[:1])
		case 2:
			io.ReadFull(r, buf[:10])
		case 3:
			n := total - 1
			for n > 0 {
				k := n
				if k > len(buf) {
					k = len(buf)
				}
				m, err := r.Read(buf[:k])
				n -= m
				if err != nil {
					break
				}
			}
		case 4:
			io.Copy(io.Discard, r)
		case 5, 6:
			n := 65530 + hist
			if n > total {
				n = total
			}
			io.CopyN(io.Discard, r, int64(n))
		}
	}
	mkSrc := func(data []byte, viaBufio int) io.Reader {
		src := env.NewSource(data)
		switch viaBufio {
		case 1:
			return bufio.NewReaderSize(src, 64)
		case 2:
			src.Chunk = 1 // one byte per call: every header is staged across refills
			return src
		case 3:
			src.Chunk = 1
			return bufio.NewReaderSize(src, 16)
		}
		return src
	}
	// Dictionaries are handed over the way a caller with one dictionary buffer does: always in the same slice
	// (same address; the contents rewritten for every call and overwritten as soon as the call returns). A Reader
	// may not keep a reference to it, nor recognise "the same dictionary" by its address.
	scrA, scrB := make([]byte, 40000), make([]byte, 40000)
	var lent [][]byte
	lend := func(scr, d []byte) []byte {
		if d == nil {
			return nil
		}
		copy(scr, d)
		lent = append(lent, scr[:len(d)])
		return scr[:len(d)]
	}
	takeBack := func() {
		for _, b := range lent {
			for i := range b {
				b[i] = 0x5a
			}
		}
		lent = lent[:0]
	}
	return func(x *mc.Exec) {
		kind := x.Choose(3, "kind")
		hist := x.Choose(len(histories), "history")
		pol := pols[x.Choose(len(pols), "read-policy")]
		viaBufio := x.Choose(4, "second-source")
		fmode := x.Choose(len(c13firstNames), "first-source")
		// the pooled-Reader pattern: Close at the end of the first life, Reset at the start of the next (explored with the
		// plain second source and the all-at-once policy)
		closeFirst := viaBufio == 0 && pol.Name == env.PolicyAll.Name && x.Choose(2, "close-before-reset") == 1
		// a life before the first one: the Reader was born on a plain source (and so owns a buffer of its own), read it
		// to the end and was then Reset onto the first source (three sources in a row; explored when the first source
		// is the caller's bufio.Reader)
		bornElsewhere := fmode != 0 && x.Choose(2, "born-on-another-source") == 1
		closeIt := func(r interface{}) {
			if c, ok := r.(io.Closer); ok && closeFirst {
				c.Close()
			}
		}
		var first *c13first
		checkFirst := func(kind, desc string) bool {
			if msg := first.verify(); msg != "" {
				x.Fail(fmt.Sprintf("C13 earlier-source-touched %s first-source=%s", kind, c13firstNames[fmode]), "%s first-source=%s: %s", desc, c13firstNames[fmode], msg)
				return false
			}
			return true
		}
		if hist != 0 {
			x.NonTrivial()
		}
		switch kind {
		case 0: // flate
			f1 := firstFlate[x.Choose(len(firstFlate), "first")]
			si := x.Choose(len(secondFlate)+len(secondFlateDict), "second")
			if strings.HasPrefix(f1.name, "fault:") && (hist != 4 || viaBufio > 1) {
				return // the fault first lives are read to their error, second source plain or bufio
			}
			if si >= len(secondFlate) {
				// second life with a preset dictionary: Reset(src, dict) against NewReaderDict(src, dict)
				d := secondFlateDict[si-len(secondFlate)]
				var r io.Reader
				if pi := Guard(func() {
					first = newC13first(f1.stream, fmode)
					if bornElsewhere {
						r = fflate.NewReader(env.NewSource(s300))
						io.Copy(io.Discard, r)
						r.(fflate.Resetter).Reset(first.reader(), nil)
					} else {
						r = fflate.NewReader(first.reader())
					}
					if f1.dict != nil {
						r.(fflate.Resetter).Reset(first.reader(), lend(scrA, f1.dict))
						takeBack()
					}
					firstRead(r, hist, 70000)
					closeIt(r)
					first.snapshot()
					r.(fflate.Resetter).Reset(mkSrc(d.stream, viaBufio), lend(scrA, d.dict))
					takeBack()
				}); pi != nil {
					x.Fail("C13 panic "+pi.Site, "flate first=%s history=%s: %s", f1.name, histories[hist], pi)
					return
				}
				fresh := fflate.NewReaderDict(mkSrc(d.stream, viaBufio), lend(scrB, d.dict)) // alive at the same time as the reused one
				takeBack()
				got := drainReader(r, pol)
				want := drainReader(fresh, pol)
				x.Note(got.FP)
				desc := fmt.Sprintf("flate first=%s history=%s second=%s (dictionary of %d bytes) policy=%s bufio=%d", f1.name, histories[hist], d.name, len(d.dict), pol.Name, viaBufio)
				if !checkFirst("flate", desc) {
					return
				}
				c13compare(x, "flate-dict", desc, histories[hist], got, want)
				return
			}
			s2 := secondFlate[si]
			var r io.Reader
			if pi := Guard(func() {
				first = newC13first(f1.stream, fmode)
				if bornElsewhere {
					r = fflate.NewReader(env.NewSource(s300))
					io.Copy(io.Discard, r)
					r.(fflate.Resetter).Reset(first.reader(), nil)
				} else {
					r = fflate.NewReader(first.reader())
				}
				if f1.dict != nil {
					r.(fflate.Resetter).Reset(first.reader(), lend(scrA, f1.dict))
					takeBack()
				}
				firstRead(r, hist, 70000)
				closeIt(r)
				first.snapshot()
				r.(fflate.Resetter).Reset(mkSrc(s2.stream, viaBufio), nil)
			}); pi != nil {
				x.Fail("C13 panic "+pi.Site, "flate first=%s history=%s: %s", f1.name, histories[hist], pi)
				return
			}
			fresh := fflate.NewReader(mkSrc(s2.stream, viaBufio)) // alive at the same time as the reused one
			got := drainReader(r, pol)
			want := drainReader(fresh, pol)
			x.Note(got.FP)
			desc := fmt.Sprintf("flate first=%s history=%s second=%s policy=%s bufio=%d", f1.name, histories[hist], s2.name, pol.Name, viaBufio)
			if !checkFirst("flate", desc) {
				return
			}
			c13compare(x, "flate", desc, histories[hist], got, want)
		case 1: // gzip
			c1 := gz[x.Choose(4, "first")]
			if viaBufio >= 2 && len(c1.bytes) > 2000 {
				return
			}
			c2 := gz[x.Choose(len(gz), "second")]
			ms1 := x.Choose(2, "multistream-off-in-first-life") == 1
			var zr *fgzip.Reader
			var rerr error
			if pi := Guard(func() {
				var err error
				first = newC13first(c1.bytes, fmode)
				if bornElsewhere {
					zr, err = fgzip.NewReader(env.NewSource(gz[0].bytes))
					if err == nil {
						io.Copy(io.Discard, zr)
						err = zr.Reset(first.reader())
					}
				} else {
					zr, err = fgzip.NewReader(first.reader())
				}
				if err != nil {
					panic(mc.HarnessError{Msg: "corpus container rejected: " + err.Error()})
				}
				if ms1 {
					zr.Multistream(false) // an option set in the first life must not survive Reset
				}
				firstRead(zr, hist, len(c1.payload))
				closeIt(zr)
				first.snapshot()
				rerr = zr.Reset(mkSrc(c2.bytes, viaBufio))
			}); pi != nil {
				x.Fail("C13 panic "+pi.Site, "gzip first=%s history=%s: %s", c1.name, histories[hist], pi)
				return
			}
			fr, ferr := fgzip.NewReader(mkSrc(c2.bytes, viaBufio))
			desc := fmt.Sprintf("gzip first=%s history=%s second=%s policy=%s bufio=%d", c1.name, histories[hist], c2.name, pol.Name, viaBufio)
			if rerr != nil && !checkFirst("gzip", desc) {
				return
			}
			if fmt.Sprint(rerr) != fmt.Sprint(ferr) {
				x.Fail("C13 reset-error-differs gzip history="+histories[hist], "%s: Reset returned %v, NewReader returned %v", desc, rerr, ferr)
				return
			}
			if rerr != nil {
				x.Outcome("header error both")
				return
			}
			if zr.Header.Name != fr.Header.Name || zr.Header.Comment != fr.Header.Comment || !bytes.Equal(zr.Header.Extra, fr.Header.Extra) || !zr.Header.ModTime.Equal(fr.Header.ModTime) || zr.Header.OS != fr.Header.OS {
				x.Fail("C13 header-differs gzip history="+histories[hist], "%s: header after Reset %+v, fresh %+v", desc, zr.Header, fr.Header)
				return
			}
			got := drainReader(zr, pol)
			want := drainReader(fr, pol)
			x.Note(got.FP)
			if !checkFirst("gzip", desc) {
				return
			}
			c13compare(x, "gzip", desc, histories[hist], got, want)
		case 2: // zlib, with dictionaries
			c1 := zl[x.Choose(len(zl), "first")]
			c2 := zl[x.Choose(len(zl), "second")]
			// the dictionary offered for the second stream: the right one, none, or one the stream does not need
			var d2 []byte
			switch x.Choose(2, "second-dict") {
			case 0:
				d2 = c2.kind.Dict
			case 1:
				if c2.kind.Dict == nil {
					d2 = dict20
				}
			}
			var zr io.ReadCloser
			var rerr error
			if pi := Guard(func() {
				var err error
				first = newC13first(c1.bytes, fmode)
				zr, err = fzlib.NewReaderDict(first.reader(), lend(scrA, c1.kind.Dict))
				takeBack()
				if err != nil {
					// first life may legitimately fail to open (missing dictionary): still a used Reader
					first = newC13first(zl[0].bytes, fmode)
					zr, err = fzlib.NewReader(first.reader())
					if err != nil {
						panic(mc.HarnessError{Msg: "corpus container rejected: " + err.Error()})
					}
				}
				firstRead(zr, hist, len(c1.payload))
				closeIt(zr)
				first.snapshot()
				rerr = zr.(fzlib.Resetter).Reset(mkSrc(c2.bytes, viaBufio), lend(scrA, d2))
				takeBack()
			}); pi != nil {
				x.Fail("C13 panic "+pi.Site, "zlib first=%s history=%s: %s", c1.name, histories[hist], pi)
				return
			}
			fr, ferr := fzlib.NewReaderDict(mkSrc(c2.bytes, viaBufio), lend(scrB, d2))
			takeBack()
			desc := fmt.Sprintf("zlib first=%s(dict=%v) history=%s second=%s(needs dict=%v, given dict=%v) policy=%s bufio=%d", c1.name, c1.kind.Dict != nil, histories[hist], c2.name, c2.kind.Dict != nil, d2 != nil, pol.Name, viaBufio)
			dcls := fmt.Sprintf("first-dict=%v second-dict=%v", c1.kind.Dict != nil, d2 != nil)
			if fmt.Sprint(rerr) != fmt.Sprint(ferr) {
				x.Fail("C13 reset-error-differs zlib "+dcls, "%s: Reset returned %v, NewReaderDict returned %v", desc, rerr, ferr)
				return
			}
			if rerr != nil {
				x.Outcome("header error both")
				return
			}
			got := drainReader(zr, pol)
			want := drainReader(fr, pol)
			x.Note(got.FP)
			if !checkFirst("zlib", desc) {
				return
			}
			c13compare(x, "zlib "+dcls, desc, histories[hist], got, want)
		}
	}
}

func c13compare(x *mc.Exec, kind, desc, hist string, got, want readOutcome) {
	if cls, msg := got.basicFaults(); cls != "" {
		x.Fail("C13 "+cls+" "+kind, "%s: %s", desc, msg)
		return
	}
	if cls, msg := want.basicFaults(); cls != "" {
		x.Fail("C13 fresh-reader-"+cls+" "+kind, "%s: %s", desc, msg)
		return
	}
	// the kind of error must agree; the byte offset inside a CorruptInputError is not compared (a zlib Reader keeps
	// whichever inflater its first stream needed, and the two inflaters count offsets differently)
	if errClass(got.Err) != errClass(want.Err) {
		x.Fail(fmt.Sprintf("C13 error-differs %s got=%s want=%s", kind, errClass(got.Err), errClass(want.Err)), "%s: after Reset %v (after %d bytes), fresh Reader %v (after %d bytes)", desc, got.Err, len(got.Out), want.Err, len(want.Out))
		return
	}
	if !bytes.Equal(got.Out, want.Out) {
		x.Fail(fmt.Sprintf("C13 output-differs %s", kind), "%s: %s (fresh Reader is 'want')", desc, diffDesc(got.Out, want.Out))
		return
	}
	if s := got.sticky(); s != "" {
		x.Fail("C13 error-not-sticky "+kind, "%s: %s", desc, s)
		return
	}
	x.Outcome(fmt.Sprintf("%s -> %d bytes %s", kind, len(got.Out), errClass(got.Err)))
}
