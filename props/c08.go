package props

import (
	"bufio"
	"bytes"
	stdgzip "compress/gzip"
	"fmt"
	"io"
	"time"

	fgzip "github.com/intel/fastgo/compress/gzip"
	"github.com/intel/fastgo/verif/env"
	"github.com/intel/fastgo/verif/mc"
	"github.com/intel/fastgo/verif/pieces"
)

// C08 — concatenated gzip members read as one stream, or member by member.

func init() {
	register(&Prop{
		ID:       "C08",
		Category: "model_checking",
		Rule: "every member sequence of length 1..3 (quick) / 1..4 (thorough) over an alphabet of 10 members (one with the optional header CRC, one with header strings longer than the smallest bufio and Latin-1 characters) (payload in {empty, 1 byte, 300 B text, 70 KB}; encoder in {fastgo 1, fastgo -2, compress/gzip 6, compress/gzip 0}; with/without Name, Comment, Extra (6, 6 and 5 bytes), ModTime, OS) x trailing data in {none, 8 zero bytes, 100 non-gzip bytes} x mode in {default multistream, Multistream(false) + Reset loop} x bufio size in {16, 512, 4096, 65536} x Read policy in {1 MiB, 4096, 1}; " +
			"oracle: default mode without trailing data: the concatenation of the payloads then io.EOF; with trailing data: whatever compress/gzip does on the same input; default mode: the header shown at the end is the first member's; member by member: payload and complete header of each member in order as compress/gzip reports them, headers kept by the caller unchanged after the later members have been read, the Reset after the last member behaves as compress/gzip's, and the source still holds the trailing data; non-trivial = at least two members",
		Assumptions: []string{"compress/gzip defines the outcome for inputs with trailing non-gzip data"},
		Quick:       TierSpec{MaxDev: -1, Shards: 4, ShardDepth: 3, BudgetS: 600},
		Thorough:    TierSpec{MaxDev: -1, Shards: 8, ShardDepth: 3, BudgetS: 1700},
		Harness:     c08Harness,
	})
}

// gzHeaderDiff compares a header handed out by fastgo with compress/gzip's for the same member.
func gzHeaderDiff(f fgzip.Header, s stdgzip.Header) string {
	switch {
	case f.Name != s.Name:
		return fmt.Sprintf("Name %q, compress/gzip %q", f.Name, s.Name)
	case f.Comment != s.Comment:
		return fmt.Sprintf("Comment %q, compress/gzip %q", f.Comment, s.Comment)
	case !bytes.Equal(f.Extra, s.Extra):
		return fmt.Sprintf("Extra %q, compress/gzip %q", f.Extra, s.Extra)
	case !f.ModTime.Equal(s.ModTime):
		return fmt.Sprintf("ModTime %v, compress/gzip %v", f.ModTime, s.ModTime)
	case f.OS != s.OS:
		return fmt.Sprintf("OS %d, compress/gzip %d", f.OS, s.OS)
	}
	return ""
}

type gzMember struct {
	name    string
	bytes   []byte
	payload []byte
	hdrName string
}

func c08Harness(cfg *Cfg) func(x *mc.Exec) {
	text := pieces.Text(300, cfg.Seed)
	big := pieces.Text(70000, cfg.Seed+1)
	alpha := []gzMember{
		{"empty/std6", gzipMember(nil, 6, stdgzip.Header{}, false), nil, ""},
		{"1byte/fast1+name+extra6", gzipMember([]byte{'Q'}, 1, stdgzip.Header{Name: "q", Extra: []byte("BC\x02\x00\x11\x11")}, true), []byte{'Q'}, "q"},
		{"300B/fast1", gzipMember(text, 1, stdgzip.Header{}, true), text, ""},
		{"300B/fast-2+name+extra6+comment", gzipMember(text, -2, stdgzip.Header{Name: "huff", Extra: []byte("BC\x02\x00\x22\x22"), Comment: "second", ModTime: time.Unix(1700000000, 0), OS: 3}, true), text, "huff"},
		{"300B/std6+name+extra5", gzipMember(text, 6, stdgzip.Header{Name: "std", Extra: []byte("XY\x01\x003"), ModTime: time.Unix(1600000000, 0)}, false), text, "std"},
		{"300B/std0", gzipMember(text, 0, stdgzip.Header{}, false), text, ""},
		{"70K/fast1", gzipMember(big, 1, stdgzip.Header{}, true), big, ""},
		{"empty/fast-2+name", gzipMember(nil, -2, stdgzip.Header{Name: "e"}, true), nil, "e"},
		// a member with the optional header CRC (no Go writer emits it; other tools do)
		{"300B/std6+name+fhcrc", addFHCRC(gzipMember(text, 6, stdgzip.Header{Name: "crc"}, false)), text, "crc"},
		// header strings longer than a small caller-owned bufio.Reader, with Latin-1 characters near the front
		{"1byte/std6+longname+longcomment", gzipMember([]byte{'L'}, 6, stdgzip.Header{Name: "r\u00e9sum\u00e9-of-the-quarterly-report-for-the-board.txt", Comment: "\u00fcber 40 bytes of comment text, all of it plain ASCII after the first"}, false), []byte{'L'}, "r\u00e9sum\u00e9-of-the-quarterly-report-for-the-board.txt"},
	}
	maxLen := 3
	if cfg.Thorough {
		maxLen = 4
	}
	trailings := []namedStream{{"none", nil}, {"8-zero-bytes", make([]byte, 8)}, {"100-non-gzip-bytes", bytes.Repeat([]byte("not gzip! "), 10)}}
	bufios := []int{16, 512, 4096, 65536}
	pols := []env.ReadPolicy{env.PolicyAll, env.Policy4096, env.Policy1}
	return func(x *mc.Exec) {
		var seq []gzMember
		var all []byte
		heavy := 0
		for i := 0; i < maxLen; i++ {
			var c int
			if i == 0 {
				c = 1 + x.Choose(len(alpha), "member")
			} else {
				c = x.Choose(len(alpha)+1, "member")
				if c == 0 {
					break
				}
			}
			m := alpha[c-1]
			if len(m.payload) > 10000 {
				heavy++
			}
			seq = append(seq, m)
			all = append(all, m.bytes...)
		}
		tr := trailings[x.Choose(len(trailings), "trailing")]
		mode := x.Choose(2, "mode")
		bsz := bufios[x.Choose(len(bufios), "bufio")]
		pol := pols[x.Choose(len(pols), "read-policy")]
		if heavy > 0 && pol.Name == "1" || heavy > 1 {
			return
		}
		if len(seq) >= 2 {
			x.NonTrivial()
		}
		input := append(append([]byte{}, all...), tr.stream...)
		names := ""
		for _, m := range seq {
			names += m.name + " "
		}
		desc := fmt.Sprintf("[%s] trailing=%s mode=%d bufio=%d policy=%s", names, tr.name, mode, bsz, pol.Name)
		site := fmt.Sprintf("mode=%d trailing=%s", mode, tr.name)
		if mode == 0 {
			br := bufio.NewReaderSize(env.NewSource(input), bsz)
			var zr *fgzip.Reader
			var err error
			if pi := Guard(func() { zr, err = fgzip.NewReader(br) }); pi != nil {
				x.Fail("C08 panic "+pi.Site, "%s: %s", desc, pi)
				return
			}
			if err != nil {
				x.Fail("C08 constructor-error "+site, "%s: %v", desc, err)
				return
			}
			o := drainReader(zr, pol)
			x.Note(o.FP)
			if cls, msg := o.basicFaults(); cls != "" {
				x.Fail("C08 "+cls+" "+site, "%s: %s", desc, msg)
				return
			}
			var want []byte
			for _, m := range seq {
				want = append(want, m.payload...)
			}
			// reference: compress/gzip on the same input
			sr, serr := stdgzip.NewReader(bufio.NewReaderSize(bytes.NewReader(input), bsz))
			if serr != nil {
				panic(mc.HarnessError{Msg: "compress/gzip rejects a corpus member"})
			}
			sout, sErr := io.ReadAll(sr)
			if len(tr.stream) == 0 && (sErr != nil || !bytes.Equal(sout, want)) {
				panic(mc.HarnessError{Msg: fmt.Sprintf("compress/gzip does not read the concatenation: %v", sErr)})
			}
			wantErr := io.EOF
			if sErr != nil {
				wantErr = sErr
			}
			if errClass(o.Err) != errClass(wantErr) {
				x.Fail(fmt.Sprintf("C08 error-differs %s got=%s want=%s", site, errClass(o.Err), errClass(wantErr)), "%s: ended with %v after %d bytes; compress/gzip: %v after %d bytes", desc, o.Err, len(o.Out), wantErr, len(sout))
				return
			}
			if !bytes.Equal(o.Out, sout) {
				x.Fail("C08 output-differs "+site, "%s: %s (compress/gzip is 'want')", desc, diffDesc(o.Out, sout))
				return
			}
			// the header shown after all members have been read is still the first member's, as with compress/gzip
			if d := gzHeaderDiff(zr.Header, sr.Header); d != "" {
				x.Fail("C08 header-after-all-members "+site, "%s: after the last member the Reader shows %s", desc, d)
				return
			}
			x.Outcome(fmt.Sprintf("%s %d members -> %d bytes %s", site, len(seq), len(o.Out), errClass(o.Err)))
			return
		}
		// member by member on the same buffered source, fastgo and compress/gzip side by side
		lastAction := x.Choose(2, "after-last-member") // 0: Reset and compare with compress/gzip; 1: drain the source and compare with the trailing data
		fbr := bufio.NewReaderSize(env.NewSource(input), bsz)
		sbr := bufio.NewReaderSize(bytes.NewReader(input), bsz)
		var zr *fgzip.Reader
		var err error
		if pi := Guard(func() { zr, err = fgzip.NewReader(fbr) }); pi != nil {
			x.Fail("C08 panic "+pi.Site, "%s: %s", desc, pi)
			return
		}
		sr, serr := stdgzip.NewReader(sbr)
		if err != nil || serr != nil {
			x.Fail("C08 constructor-error "+site, "%s: fastgo %v, compress/gzip %v", desc, err, serr)
			return
		}
		// headers as handed out, kept the way a caller keeps them (a copy of the struct: Extra still points at what the
		// Reader handed out); they are compared at once and again after all members have been read
		var keptF []fgzip.Header
		var keptS []stdgzip.Header
		recheck := func() bool {
			for j := range keptF {
				if d := gzHeaderDiff(keptF[j], keptS[j]); d != "" {
					x.Fail("C08 kept-header-changed "+site, "%s: the header of member %d, kept by the caller, changed while later members were read: %s", desc, j, d)
					return false
				}
			}
			return true
		}
		for i := 0; ; i++ {
			zr.Multistream(false)
			sr.Multistream(false)
			o := drainReader(zr, pol)
			x.Note(o.FP)
			if cls, msg := o.basicFaults(); cls != "" {
				x.Fail("C08 "+cls+" "+site, "%s: member %d: %s", desc, i, msg)
				return
			}
			if i >= len(seq) {
				panic(mc.HarnessError{Msg: "C08: more members than written"})
			}
			if o.Err != io.EOF || !bytes.Equal(o.Out, seq[i].payload) {
				x.Fail(fmt.Sprintf("C08 member-payload %s", site), "%s: member %d (%s): err=%v, %s", desc, i, seq[i].name, o.Err, diffDesc(o.Out, seq[i].payload))
				return
			}
			if zr.Header.Name != seq[i].hdrName {
				x.Fail("C08 member-header "+site, "%s: member %d header name %q, want %q", desc, i, zr.Header.Name, seq[i].hdrName)
				return
			}
			if d := gzHeaderDiff(zr.Header, sr.Header); d != "" {
				x.Fail("C08 member-header "+site, "%s: member %d header: %s", desc, i, d)
				return
			}
			keptF = append(keptF, zr.Header)
			keptS = append(keptS, stdgzip.Header{Name: sr.Header.Name, Comment: sr.Header.Comment, Extra: append([]byte(nil), sr.Header.Extra...), ModTime: sr.Header.ModTime, OS: sr.Header.OS})
			io.Copy(io.Discard, sr)
			if i == len(seq)-1 && lastAction == 1 {
				// the source must still hold exactly the trailing data
				left, _ := io.ReadAll(fbr)
				if !bytes.Equal(left, tr.stream) {
					x.Fail("C08 trailing-data-not-intact "+site, "%s: %d bytes left in the source after the last member's io.EOF, want the %d trailing bytes", desc, len(left), len(tr.stream))
					return
				}
				if !recheck() {
					return
				}
				break
			}
			var rerr error
			if pi := Guard(func() { rerr = zr.Reset(fbr) }); pi != nil {
				x.Fail("C08 panic "+pi.Site, "%s: Reset: %s", desc, pi)
				return
			}
			srerr := sr.Reset(sbr)
			last := i == len(seq)-1
			if last {
				// before that Reset the source must still have held exactly the trailing data: compare what is left now on both sides
				if errClass(rerr) != errClass(srerr) {
					x.Fail(fmt.Sprintf("C08 reset-after-last-member %s got=%s want=%s", site, errClass(rerr), errClass(srerr)), "%s: Reset after the last member returned %v, compress/gzip %v", desc, rerr, srerr)
					return
				}
				fl, _ := io.ReadAll(fbr)
				sl, _ := io.ReadAll(sbr)
				if !bytes.Equal(fl, sl) {
					x.Fail("C08 trailing-data-consumed "+site, "%s: %d bytes left in the source after the last Reset, compress/gzip leaves %d", desc, len(fl), len(sl))
					return
				}
				if !recheck() {
					return
				}
				break
			}
			if rerr != nil || srerr != nil {
				x.Fail("C08 reset-between-members "+site, "%s: Reset before member %d: fastgo %v, compress/gzip %v", desc, i+1, rerr, srerr)
				return
			}
		}
		x.Outcome(fmt.Sprintf("%s %d members", site, len(seq)))
	}
}
