//go:build c17snap

package props

import (
	"bytes"
	"encoding/json"
	"fmt"
	"io"
	"os"
	"os/exec"
	"runtime"
	"sort"
	"strings"
	"sync"

	fflate "github.com/intel/fastgo/compress/flate"
	fgzip "github.com/intel/fastgo/compress/gzip"
	"github.com/intel/fastgo/internal/verifsnap"
	"github.com/intel/fastgo/verif/env"
	"github.com/intel/fastgo/verif/introspect"
	"github.com/intel/fastgo/verif/mc"
	"github.com/intel/fastgo/verif/pieces"
	"github.com/intel/fastgo/verif/synth"
)

// C17 — separate Writers and Readers do not interfere when used concurrently.
//
// Built only for the C17 check (tag c17snap, with the generated overlay that
// registers every package-level variable of fastgo with internal/verifsnap).

func init() {
	register(&Prop{
		ID:       "C17",
		Category: "model_checking",
		Rule: "(a) scenarios of 3 threads (real goroutines under a hand-off scheduler) x 3 operations each (4 in the thorough tier: 34650 interleavings per scenario) on DISTINCT instances chosen to touch the same package-level tables (fixed-Huffman and dynamic decodes, level-1 / level-2 / Huffman-only compression, 4 KiB window, gzip, zlib with dictionary, a Writer closed, Reset and reused next to Writers constructed after its Close, a flate and a gzip Reader closed, Reset and reused next to Readers constructed after their Close, three gzip Writers with Latin-1 header strings): ALL interleavings of the operations (1680 per scenario) at every acceleration level; oracle: every instance's bytes and errors equal its solo run; " +
			"(b) global-state invariant in every explored state: a snapshot over EVERY package-level variable of the six fastgo packages (registration code generated from /repo's current sources with go/parser, injected with go build -overlay) is unchanged since initialisation (the baseline is taken after one solo warm-up run of every instance, so tables built lazily on first use do not count); " +
			"(c) complement, sampling not enumeration: the same bodies free-running under the race detector, 16 goroutines x rounds x GOMAXPROCS {1,2,16}; non-trivial = every execution (each has 9 operations on 3 instances)",
		Assumptions: []string{"scheduling points are the API calls: fastgo has no locks, channels or atomics, so interleavings inside a call are covered only by the global-state invariant and the sampled race pass",
			"assembly routines are not instrumented by the race detector; memory orderings are not modelled"},
		Quick:    TierSpec{MaxDev: -1, Shards: 2, ShardDepth: 3, BudgetS: 600},
		Thorough: TierSpec{MaxDev: -1, Shards: 4, ShardDepth: 3, BudgetS: 1200},
		Harness:  c17Harness,
		Extra:    c17RacePass,
		Levels:   func(avail []int, thorough bool) []int { return avail },
	})
}

// c17FourOps: thorough tier: four operations per thread (34650 interleavings per scenario instead of 1680).
var c17FourOps bool

type c17inst struct {
	name   string
	ops    []func()
	digest func() string
}

func c17Writer(k WK, p1, p2 []byte) *c17inst {
	sink := &env.Sink{}
	var w WC
	var errs []string
	in := &c17inst{name: "W:" + k.String()}
	note := func(err error) { errs = append(errs, nilness(err)) }
	first := p1
	var second []byte
	if c17FourOps {
		first, second = p1[:len(p1)/2], p1[len(p1)/2:]
	}
	in.ops = []func(){
		func() {
			var err error
			w, err = k.Fast(sink)
			note(err)
			if err == nil {
				_, err = w.Write(first)
				note(err)
			}
		},
	}
	if c17FourOps {
		in.ops = append(in.ops, func() {
			if w != nil {
				_, err := w.Write(second)
				note(err)
			}
		})
	}
	in.ops = append(in.ops,
		func() {
			if w != nil {
				note(w.Flush())
				_, err := w.Write(p2)
				note(err)
			}
		},
		func() {
			if w != nil {
				note(w.Close())
			}
		})
	in.digest = func() string {
		return fmt.Sprintf("%d:%016x:%s", len(sink.Buf), introspect.Bytes2(sink.Buf), strings.Join(errs, ","))
	}
	return in
}

// c17ReusedWriter: op0 = construct, Write, Close; op1 = Reset onto a new sink, Write; op2 = Write, Close.
func c17ReusedWriter(k WK, p1, p2, p3 []byte) *c17inst {
	s1, s2 := &env.Sink{}, &env.Sink{}
	var w WC
	var errs []string
	in := &c17inst{name: "Wreused:" + k.String()}
	note := func(err error) { errs = append(errs, nilness(err)) }
	in.ops = []func(){
		func() {
			var err error
			w, err = k.Fast(s1)
			note(err)
			if err == nil {
				_, err = w.Write(p1)
				note(err)
				note(w.Close())
			}
		},
		func() {
			if w != nil {
				w.Reset(s2)
				_, err := w.Write(p2)
				note(err)
			}
		},
		func() {
			if w != nil {
				_, err := w.Write(p3)
				note(err)
				if !c17FourOps {
					note(w.Close())
				}
			}
		},
	}
	if c17FourOps {
		in.ops = append(in.ops, func() {
			if w != nil {
				note(w.Close())
			}
		})
	}
	in.digest = func() string {
		return fmt.Sprintf("%d:%016x:%d:%016x:%s", len(s1.Buf), introspect.Bytes2(s1.Buf), len(s2.Buf), introspect.Bytes2(s2.Buf), strings.Join(errs, ","))
	}
	return in
}

func c17Reader(k RK, name string, stream []byte) *c17inst {
	var r io.Reader
	var out []byte
	var errs []string
	in := &c17inst{name: "R:" + k.String() + ":" + name}
	read := func(n int) {
		if r == nil {
			return
		}
		buf := make([]byte, n)
		m, err := io.ReadFull(r, buf)
		out = append(out, buf[:m]...)
		errs = append(errs, errClass(err))
	}
	in.ops = []func(){
		func() {
			var err error
			r, err = k.OpenFast(bytes.NewReader(stream))
			errs = append(errs, errClass(err))
			read(100)
		},
		func() { read(5000) },
		func() {
			if c17FourOps {
				return
			}
			if r != nil {
				b, err := io.ReadAll(r)
				out = append(out, b...)
				errs = append(errs, errClass(err))
			}
		},
	}
	if c17FourOps {
		in.ops[2] = func() { read(7000) }
		in.ops = append(in.ops, func() {
			if r != nil {
				b, err := io.ReadAll(r)
				out = append(out, b...)
				errs = append(errs, errClass(err))
			}
		})
	}
	in.digest = func() string {
		return fmt.Sprintf("%d:%016x:%s", len(out), introspect.Bytes2(out), strings.Join(errs, ","))
	}
	return in
}

// c17ReusedReader: op0 = construct on stream A, read 100 bytes, Close; op1 = Reset onto stream B, read 5000;
// op2 (op3) = read the rest. The pooled-Reader pattern next to Readers constructed after its Close.
func c17ReusedReader(gz bool, name string, streamA, streamB []byte) *c17inst {
	var r io.Reader
	var out []byte
	var errs []string
	kind := "flate"
	if gz {
		kind = "gzip"
	}
	in := &c17inst{name: "Rreused:" + kind + ":" + name}
	read := func(n int) {
		if r == nil {
			return
		}
		buf := make([]byte, n)
		m, err := io.ReadFull(r, buf)
		out = append(out, buf[:m]...)
		errs = append(errs, errClass(err))
	}
	rest := func() {
		if r != nil {
			b, err := io.ReadAll(r)
			out = append(out, b...)
			errs = append(errs, errClass(err))
		}
	}
	in.ops = []func(){
		func() {
			var err error
			r, err = RK{Kind: kind}.OpenFast(bytes.NewReader(streamA))
			errs = append(errs, errClass(err))
			read(100)
			if c, ok := r.(io.Closer); ok {
				errs = append(errs, nilness(c.Close()))
			}
		},
		func() {
			if r == nil {
				return
			}
			var err error
			if gz {
				err = r.(*fgzip.Reader).Reset(bytes.NewReader(streamB))
			} else {
				err = r.(fflate.Resetter).Reset(bytes.NewReader(streamB), nil)
			}
			errs = append(errs, errClass(err))
			read(5000)
		},
		rest,
	}
	if c17FourOps {
		in.ops[2] = func() { read(7000) }
		in.ops = append(in.ops, rest)
	}
	in.digest = func() string {
		return fmt.Sprintf("%d:%016x:%s", len(out), introspect.Bytes2(out), strings.Join(errs, ","))
	}
	return in
}

type c17data struct {
	text70, r370, rand66 []byte
	fixedA, fixedB, dyn  []byte
	zdict, gz2, std70    []byte
}

func c17Data(seed uint64) *c17data {
	d := &c17data{text70: pieces.Text(70000, seed), r370: pieces.R3(70000, seed), rand66: pieces.Rand(66000, seed)}
	mk := func(lit int, n int) []byte {
		var syms []synth.Sym
		for i := 0; i < n; i++ {
			syms = append(syms, synth.Sym{Kind: synth.SymLit, Lit: lit + i%7})
			if i%9 == 8 {
				syms = append(syms, synth.Sym{Kind: synth.SymMatch, Len: 3 + i%200, Dist: 1 + i%8})
			}
		}
		return synth.Build(synth.Block{Final: true, Type: 1, Syms: syms})
	}
	d.fixedA = mk('a', 4000)
	d.fixedB = mk(180, 3000)
	d.dyn = stdDeflate(d.text70, 6)
	d.std70 = stdDeflate(d.r370, 1)
	d.zdict = zlibStream(pieces.Text(20000, seed+3), 6, dict20)
	d.gz2 = append(gzipMember(pieces.Text(6000, seed+4), 6, gzHdr("a"), false), gzipMember(d.r370[:9000], 1, gzHdr(""), true)...)
	return d
}

func c17Scenario(id int, d *c17data) []*c17inst {
	switch id {
	case 0:
		return []*c17inst{c17Reader(RK{Kind: "flate"}, "fixedA", d.fixedA), c17Reader(RK{Kind: "flate"}, "fixedB", d.fixedB), c17Reader(RK{Kind: "flate"}, "dyn70K", d.dyn)}
	case 1:
		return []*c17inst{c17Writer(WK{Kind: "flate", Level: 1}, d.text70, d.r370[:30000]), c17Writer(WK{Kind: "flate", Level: -2}, d.r370, d.text70[:5000]), c17Writer(WK{Kind: "gzip", Level: 2}, d.rand66, d.text70[:70000])}
	case 2:
		return []*c17inst{c17Writer(WK{Kind: "flate4k", Level: 2}, d.text70[:20000], d.r370[:20000]), c17Reader(RK{Kind: "zlib", Dict: dict20}, "dict", d.zdict), c17Reader(RK{Kind: "gzip", Multi: true}, "two-members", d.gz2)}
	case 3:
		return []*c17inst{c17Writer(WK{Kind: "flate", Level: 1}, d.text70, d.text70[:10000]), c17Writer(WK{Kind: "flate", Level: 1}, d.r370, d.r370[:10000]), c17Reader(RK{Kind: "flate"}, "std70", d.std70)}
	case 7:
		// gzip Writers whose header strings need converting to Latin-1 (the header goes out lazily, inside the first call)
		return []*c17inst{c17Writer(WK{Kind: "gzip", Level: 1, Hdr: true}, d.text70[:3000], d.r370[:3000]), c17Writer(WK{Kind: "gzip", Level: -2, Hdr: true}, d.r370[:3000], d.text70[:3000]),
			c17Writer(WK{Kind: "gzip", Level: 6, Hdr: true}, d.text70[:2000], d.text70[:2000])}
	case 5:
		// a Reader that is closed, Reset and used again next to Readers constructed after its Close
		return []*c17inst{c17ReusedReader(false, "fixedA-then-dyn70K", d.fixedA, d.dyn), c17Reader(RK{Kind: "flate"}, "std70", d.std70), c17Reader(RK{Kind: "gzip", Multi: true}, "two-members", d.gz2)}
	case 6:
		return []*c17inst{c17ReusedReader(true, "two-members-twice", d.gz2, d.gz2), c17Reader(RK{Kind: "flate"}, "fixedB", d.fixedB), c17Reader(RK{Kind: "flate"}, "dyn70K", d.dyn)}
	default:
		// a Writer that is closed, Reset and used again next to Writers constructed after its Close (resources handed
		// back at Close must not be shared with the Writers that pick them up)
		return []*c17inst{c17ReusedWriter(WK{Kind: "flate", Level: 1}, d.text70[:20000], d.r370[:40000], d.text70[20000:50000]),
			c17Writer(WK{Kind: "flate", Level: 2}, d.r370[:30000], d.text70[:30000]), c17Writer(WK{Kind: "gzip", Level: 1}, d.text70[:30000], d.r370[:30000])}
	}
}

const c17Scenarios = 8

func snapDiff(a, b map[string]uint64) string {
	var out []string
	for k, v := range a {
		if b[k] != v {
			out = append(out, k)
		}
	}
	sort.Strings(out)
	return strings.Join(out, ", ")
}

func c17Harness(cfg *Cfg) func(x *mc.Exec) {
	c17FourOps = cfg.Thorough
	d := c17Data(cfg.Seed)
	if verifsnap.Count() < 10 {
		panic(mc.HarnessError{Msg: fmt.Sprintf("only %d package-level variables registered: overlay not effective", verifsnap.Count())})
	}
	// solo digests
	solo := map[int][]string{}
	for s := 0; s < c17Scenarios; s++ {
		for i := 0; i < 3; i++ {
			insts := c17Scenario(s, d)
			for _, op := range insts[i].ops {
				op()
			}
			solo[s] = append(solo[s], insts[i].digest())
		}
	}
	// The baseline is taken after the solo runs, which serve as warm-up: a table that the library builds lazily on
	// first use (and then only reads) is part of "initialisation" and must not raise an alarm.
	base := verifsnap.Snapshot()
	return func(x *mc.Exec) {
		s := x.Choose(c17Scenarios, "scenario")
		insts := c17Scenario(s, d)
		// real goroutines under a hand-off scheduler
		turn := make([]chan int, len(insts))
		done := make(chan *PanicInfo)
		for i := range insts {
			turn[i] = make(chan int)
			go func(i int) {
				for opi := range turn[i] {
					pi := Guard(insts[i].ops[opi])
					done <- pi
				}
			}(i)
		}
		defer func() {
			for i := range turn {
				close(turn[i])
			}
		}()
		next := make([]int, len(insts))
		sched := ""
		x.NonTrivial()
		for step := 0; step < 16; step++ {
			var enabled []int
			for i := range insts {
				if next[i] < len(insts[i].ops) {
					enabled = append(enabled, i)
				}
			}
			if len(enabled) == 0 {
				break
			}
			t := enabled[x.Choose(len(enabled), "thread")]
			turn[t] <- next[t]
			pi := <-done
			next[t]++
			sched += fmt.Sprint(t)
			if pi != nil {
				x.Fail("C17 panic "+pi.Site, "scenario %d schedule %s: %s op %d: %s", s, sched, insts[t].name, next[t]-1, pi)
				return
			}
			now := verifsnap.Snapshot()
			if diff := snapDiff(base, now); diff != "" {
				x.Fail("C17 global-state-modified "+diff, "scenario %d schedule %s: after %s op %d the package-level variable(s) %s differ from their value after initialisation", s, sched, insts[t].name, next[t]-1, diff)
				return
			}
			var acc uint64
			for k, v := range now {
				acc ^= introspect.Str(k) * v
			}
			x.Note(introspect.Mix(uint64(s), uint64(next[0]), uint64(next[1]), uint64(next[2]), acc))
		}
		for i := range insts {
			if got := insts[i].digest(); got != solo[s][i] {
				x.Fail(fmt.Sprintf("C17 interference scenario=%d instance=%s", s, insts[i].name), "scenario %d schedule %s: %s produced %s, alone it produces %s (bytes:hash:errors)", s, sched, insts[i].name, got, solo[s][i])
				return
			}
		}
		x.Outcome(fmt.Sprintf("scenario %d ok", s))
	}
}

// RaceBody is the free-running pass executed by the race-instrumented binary.
func RaceBody(seed uint64, rounds int) (summary map[string]interface{}, failures []string) {
	d := c17Data(seed)
	solo := map[int][]string{}
	for s := 0; s < c17Scenarios; s++ {
		for i := 0; i < 3; i++ {
			insts := c17Scenario(s, d)
			for _, op := range insts[i].ops {
				op()
			}
			solo[s] = append(solo[s], insts[i].digest())
		}
	}
	base := verifsnap.Snapshot()
	runs := 0
	for _, procs := range []int{1, 2, 16} {
		old := runtime.GOMAXPROCS(procs)
		for r := 0; r < rounds; r++ {
			var wg sync.WaitGroup
			var mu sync.Mutex
			// 16 goroutines: every instance of every scenario, some twice
			for g := 0; g < 16; g++ {
				s := g % c17Scenarios
				i := (g / c17Scenarios) % 3
				wg.Add(1)
				go func(s, i, g int) {
					defer wg.Done()
					insts := c17Scenario(s, d)
					for _, op := range insts[i].ops {
						op()
						if g%2 == 0 {
							runtime.Gosched()
						}
					}
					if got := insts[i].digest(); got != solo[s][i] {
						mu.Lock()
						failures = append(failures, fmt.Sprintf("GOMAXPROCS=%d round %d: scenario %d %s produced %s, alone %s", procs, r, s, insts[i].name, got, solo[s][i]))
						mu.Unlock()
					}
				}(s, i, g)
			}
			wg.Wait()
			runs += 16
		}
		runtime.GOMAXPROCS(old)
	}
	if diff := snapDiff(base, verifsnap.Snapshot()); diff != "" {
		failures = append(failures, "package-level variables modified during the free-running pass: "+diff)
	}
	return map[string]interface{}{"goroutine_runs": runs, "rounds": rounds, "gomaxprocs": []int{1, 2, 16}, "registered_globals": verifsnap.Count()}, failures
}

// c17RacePass runs the race-instrumented binary (built by check_C17) and folds its result into the evidence.
func c17RacePass(cfg *Cfg) (map[string]interface{}, []mc.Violation) {
	bin := os.Getenv("VERIF_RACE_BIN")
	extra := map[string]interface{}{"registered_package_level_variables": verifsnap.Names()}
	if bin == "" {
		extra["race_pass"] = "not run (VERIF_RACE_BIN unset)"
		return extra, nil
	}
	rounds := "3"
	if cfg.Thorough {
		rounds = "20"
	}
	cmd := exec.Command(bin, "race", rounds)
	cmd.Env = append(os.Environ(), "GORACE=halt_on_error=1 exitcode=66")
	out, err := cmd.CombinedOutput()
	var res struct {
		Summary  map[string]interface{} `json:"summary"`
		Failures []string               `json:"failures"`
	}
	var viol []mc.Violation
	if i := bytes.LastIndex(out, []byte("RACE-RESULT: ")); i >= 0 {
		json.Unmarshal(bytes.TrimSpace(out[i+len("RACE-RESULT: "):]), &res)
	}
	if err != nil {
		msg := string(out)
		if len(msg) > 3000 {
			msg = msg[:3000]
		}
		key := "C17 race-pass failed"
		if strings.Contains(msg, "WARNING: DATA RACE") {
			key = "C17 data-race"
		}
		viol = append(viol, mc.Violation{Key: key, Msg: msg, Count: 1})
	}
	for _, f := range res.Failures {
		viol = append(viol, mc.Violation{Key: "C17 free-running-interference", Msg: f, Count: 1})
		break
	}
	extra["race_pass"] = res.Summary
	return extra, viol
}
