package props

import (
	"bytes"
	"fmt"

	"github.com/intel/fastgo/verif/env"
	"github.com/intel/fastgo/verif/introspect"
	"github.com/intel/fastgo/verif/mc"
	"github.com/intel/fastgo/verif/pieces"
)

// C12 — Writer.Reset makes a used Writer indistinguishable from a new one.

func init() {
	register(&Prop{
		ID:       "C12",
		Category: "model_checking",
		Rule: "first life h1 = every sequence of length <=d1 over {Write(piece) for pieces leaving every kind of residue, Flush, Close, destination-fails-from-now-on, Reset(another sink)}; then Reset(new sink); " +
			"second life h2 from a fixed menu {Close; Flush Close; W(small) Close; W(same data as h1) Close; W(small) Flush W(small) Close; W(3*fill) Close}; " +
			"oracle: bytes sent to the new sink and every returned error identical to a fresh Writer of the same setting running h2, nothing written after the last Reset to the old sink or to any sink given up earlier, output decodes; non-trivial = h1 wrote at least one byte",
		Assumptions: []string{"the fresh Writer is the reference model"},
		Quick:       TierSpec{MaxDev: -1, Shards: 4, ShardDepth: 3, BudgetS: 600},
		Thorough:    TierSpec{MaxDev: -1, Shards: 8, ShardDepth: 3, BudgetS: 1700},
		Harness:     c12Harness,
	})
}

func c12Harness(cfg *Cfg) func(x *mc.Exec) {
	kinds := accKinds(false)
	kinds = append(kinds, WK{Kind: "flate", Level: 0}, WK{Kind: "flate", Level: 6}, WK{Kind: "flatedict", Level: 1, Dict: dict20})
	kinds = append(kinds, containerKinds([]int{-2, 1, 2, 6})...)
	kinds = append(kinds, WK{Kind: "zlibdict", Level: 1, Dict: dict20})
	d1 := 2
	if cfg.Thorough {
		d1 = 3
	}
	type h1pieces struct{ ps []pieces.Piece }
	pcache := map[int][]pieces.Piece{}
	getPieces := func(k WK) []pieces.Piece {
		T := k.Fill()
		if p, ok := pcache[T]; ok {
			return p
		}
		p := []pieces.Piece{
			pieces.P("small", []byte("hello, hello, hello world\n")),
			pieces.P(fmt.Sprintf("fill(rand,%d)", T), pieces.Rand(T, cfg.Seed)),
			pieces.P(fmt.Sprintf("fill(text,%d)", T), pieces.Text(T, cfg.Seed)),
			pieces.P(fmt.Sprintf("fill-1(r3,%d)", T-1), pieces.R3(T-1, cfg.Seed)),
			pieces.P(fmt.Sprintf("3fill(text,%d)", 3*T+5), pieces.Text(3*T+5, cfg.Seed+1)),
			pieces.P("wrap(zero,70001)", pieces.Zero(70001, 'z')),
		}
		pcache[T] = p
		return p
	}
	h2names := []string{"Close", "Flush Close", "W(small) Close", "W(h1 data) Close", "W(small) Flush W(small) Close", "W(3fill) Close"}
	type refKey struct {
		k, h2 int
		dh    uint64
	}
	type refVal struct {
		out  []byte
		errs string
	}
	refCache := map[refKey]refVal{}
	return func(x *mc.Exec) {
		ki := x.Choose(len(kinds), "cfg")
		k := kinds[ki]
		ps := getPieces(k)
		old := &env.Sink{}
		past := []*env.Sink{} // destinations given up by a Reset inside the first life
		r, err := newRun(k, old)
		if err != nil {
			x.Fail("C12 ctor "+k.Kind, "%s: %v", k, err)
			return
		}
		var h1data []byte
		residue := ""
		for step := 0; step < d1; step++ {
			c := x.Choose(len(ps)+5, "h1")
			if c == 0 {
				break
			}
			switch c {
			case 1:
				if _, _, ok := r.do(x, "C12", opFlush, nil, "Flush"); !ok {
					return
				}
				residue += "F"
			case 2:
				if _, _, ok := r.do(x, "C12", opClose, nil, "Close"); !ok {
					return
				}
				residue += "C"
			case 3:
				old.FailAt = old.Calls + 1
				old.FailAlways = true
				old.FailErr = env.NewErr("h1")
				r.hist += "dest-fails-now "
				residue += "X"
			case 4:
				// a Reset inside the first life (pool Put followed by pool Get): the destination changes once more
				past = append(past, old)
				old = &env.Sink{}
				if pi := r.reset(old); pi != nil {
					x.Fail("C12 reset-panic "+k.Kind+accTag(k), "%s [%s]: Reset panics: %s", k, r.hist, pi)
					return
				}
				residue += "R"
			default:
				p := ps[c-5]
				if _, _, ok := r.do(x, "C12", opWrite, p.Data, "W("+p.Name+")"); !ok {
					return
				}
				h1data = append(h1data, p.Data...)
				residue += "W"
			}
		}
		if len(h1data) > 0 {
			x.NonTrivial()
		}
		oldLen, oldCalls := len(old.Buf), old.Calls
		pastLen, pastCalls := make([]int, len(past)), make([]int, len(past))
		for i, s := range past {
			pastLen[i], pastCalls[i] = len(s.Buf), s.Calls
		}
		h2 := x.Choose(len(h2names), "h2")
		// second life on the used writer and on a fresh one
		life := func(rr *wrun, tag string) (errs string, ok bool) {
			step := func(op int, data []byte, name string) bool {
				_, err, ok := rr.do(x, "C12", op, data, tag+name)
				if !ok {
					return false
				}
				errs += nilness(err) + ","
				return true
			}
			small := ps[0].Data
			switch h2 {
			case 0:
			case 1:
				if !step(opFlush, nil, "Flush") {
					return errs, false
				}
			case 2:
				if !step(opWrite, small, "W(small)") {
					return errs, false
				}
			case 3:
				if !step(opWrite, h1data, "W(h1 data)") {
					return errs, false
				}
			case 4:
				if !step(opWrite, small, "W(small)") || !step(opFlush, nil, "Flush") || !step(opWrite, small, "W(small)") {
					return errs, false
				}
			case 5:
				if !step(opWrite, ps[4].Data, "W(3fill)") {
					return errs, false
				}
			}
			if !step(opClose, nil, "Close") {
				return errs, false
			}
			return errs, true
		}
		ns := &env.Sink{}
		if pi := r.reset(ns); pi != nil {
			x.Fail("C12 reset-panic "+k.Kind+accTag(k), "%s [%s]: Reset panics: %s", k, r.hist, pi)
			return
		}
		gotErrs, ok := life(r, "")
		if !ok {
			return
		}
		x.Note(r.fp())
		rk := refKey{ki, h2, 0}
		if h2 == 3 {
			rk.dh = introspect.Bytes(h1data)
		}
		ref, have := refCache[rk]
		if !have {
			fs := &env.Sink{}
			fr, err := newRun(k, fs)
			if err != nil {
				x.Fail("C12 ctor "+k.Kind, "%s: %v", k, err)
				return
			}
			errs, ok := life(fr, "fresh:")
			if !ok {
				return
			}
			ref = refVal{fs.Buf, errs}
			refCache[rk] = ref
		}
		hcls := fmt.Sprintf("%s h1-residue=%s", k.Kind+accTag(k), residueClass(residue))
		for i, s := range past {
			if len(s.Buf) != pastLen[i] || s.Calls != pastCalls[i] {
				x.Fail("C12 earlier-sink-touched "+hcls, "%s [%s]: %d bytes / %d calls reached a destination given up %d Resets earlier", k, r.hist, len(s.Buf)-pastLen[i], s.Calls-pastCalls[i], len(past)-i+1)
				return
			}
		}
		if len(old.Buf) != oldLen || old.Calls != oldCalls {
			x.Fail("C12 old-sink-touched "+hcls, "%s [%s]: %d bytes / %d calls reached the old destination after Reset", k, r.hist, len(old.Buf)-oldLen, old.Calls-oldCalls)
			return
		}
		if gotErrs != ref.errs {
			x.Fail("C12 errors-differ "+hcls, "%s [%s]: errors after Reset %q, fresh Writer %q", k, r.hist, gotErrs, ref.errs)
			return
		}
		if !bytes.Equal(ns.Buf, ref.out) {
			what := "output-differs"
			if cls, _ := CheckStream(k, ns.Buf, r.data); cls != "" {
				what = "output-differs-and-" + cls
			}
			x.Fail("C12 "+what+" "+hcls, "%s [%s]: bytes emitted after Reset differ from a fresh Writer running [%s]: %s", k, r.hist, h2names[h2], diffDesc(ns.Buf, ref.out))
			return
		}
		if cls, msg := CheckStream(k, ns.Buf, r.data); cls != "" && !(k.Dict != nil && cls == "dict-prepended") {
			x.Fail(fmt.Sprintf("C12 stream %s %s", k.Kind+accTag(k), cls), "%s [%s]: %s", k, r.hist, msg)
		}
		x.Outcome(fmt.Sprintf("%s h1=%s h2=%d out=%d", k, residue, h2, len(ns.Buf)))
	}
}

// residueClass abstracts a first-life history into the kind of residue it leaves.
func residueClass(s string) string {
	if s == "" {
		return "none"
	}
	out := ""
	for _, c := range []byte("WFCXR") {
		if bytes.IndexByte([]byte(s), c) >= 0 {
			out += string(c)
		}
	}
	return out + "/last=" + s[len(s)-1:]
}
