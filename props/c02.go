package props

import (
	"bytes"
	"fmt"
	"io"
	"strings"

	"github.com/intel/fastgo/verif/env"
	"github.com/intel/fastgo/verif/mc"
	"github.com/intel/fastgo/verif/pieces"
	"github.com/intel/fastgo/verif/synth"
)

// C02 — the Reader decodes every valid DEFLATE stream exactly as compress/flate does.

func init() {
	register(&Prop{
		ID:       "C02",
		Category: "model_checking",
		Rule: "streams synthesised block by block from a grammar: (A) one dynamic block for every (literal/length shape x distance shape x header encoding: plain, run-length coded, never across the literal/distance boundary, and the legal-but-unusual form in which zero runs are continued with repeat code 16) of the catalogue with every symbol sequence of length <=k over the per-code alphabet, bare / padded past the assembly loop's entry conditions / after a 64 KiB+ prefix; (B) the same over the fixed code; " +
			"(C) stored blocks of length 0,1,2,65535 at all 8 bit offsets; (D) every ordered pair of code shapes in consecutive blocks; (E) 2000 tiny blocks in a row; (F) streams made by compress/flate (levels 0,1,6,9,-2) and by fastgo (accelerated levels) over the data pieces; " +
			"(H) window-fill straddle: a stored prefix ending j bytes (16 values 0..259) before the decoder's 64 KiB output window fills (65536 and 98304), then 0-2 literals, a match of length {3,4,17,18,257,258} and distance {1,2,3,15,16,17,31,32,33,100,257,258,259,4096,32768} in a non-final fixed or short-code dynamic block (packed literal+length table entries), so that literals, packed entries and copies straddle the fill point; " +
			"(I) small-distance sweep: every distance 1..64 x 19 lengths around the 16/32-byte vector widths, after `distance` distinct literals and followed by 300 literals (decoded inside the assembly loop); " +
			"(G) single-match sweep: every length 3..258 (both encodings of 258) x first and last distance of every distance symbol; each x 6 Read-size policies; only streams compress/flate accepts are in scope; non-trivial = the stream has at least one symbol besides end-of-block",
		Assumptions: []string{"compress/flate defines the expected result", "reference inflater agrees with compress/flate on every stream (checked on every execution; disagreement is a harness error)"},
		Quick:       TierSpec{MaxDev: -1, Shards: 4, ShardDepth: 3, BudgetS: 600},
		Thorough:    TierSpec{MaxDev: -1, Shards: 8, ShardDepth: 3, BudgetS: 1700},
		Harness:     c02Harness,
	})
}

var readPolicies = []env.ReadPolicy{env.PolicyAll, env.Policy1, env.Policy7, env.Policy258, env.Policy4096, env.PolicyAlt, env.PolicyZero}

type streamGen struct {
	cfg     *Cfg
	lits    []synth.LitShape
	dists   []synth.DistShape
	prefix  []byte // 64 KiB+ stored prefix blocks
	prefOut []byte
	encoded []namedStream
	wfData  []byte
}

type namedStream struct {
	name   string
	stream []byte
}

func newStreamGen(cfg *Cfg) *streamGen {
	g := &streamGen{cfg: cfg, lits: synth.LitShapes(), dists: synth.DistShapes()}
	p := pieces.Text(70000, cfg.Seed)
	g.prefOut = p
	w := &synth.BitWriter{}
	synth.BuildTo(w, synth.Block{Type: 0, Stored: p[:65535]}, synth.Block{Type: 0, Stored: p[65535:]})
	g.prefix = w.Bytes()
	return g
}

// encoderStreams builds streams with real encoders.
func (g *streamGen) encoderStreams() []namedStream {
	if g.encoded != nil {
		return g.encoded
	}
	data := []pieces.Piece{
		pieces.P("empty", nil),
		pieces.P("small", []byte("hello, hello, hello world\n")),
		pieces.P("text5000", pieces.Text(5000, g.cfg.Seed)),
		pieces.P("r3-70001", pieces.R3(70001, g.cfg.Seed)),
		pieces.P("zero-70001", pieces.Zero(70001, 0)),
		pieces.P("rand-66000", pieces.Rand(66000, g.cfg.Seed)),
		pieces.P("fib-140000", pieces.Fib(140000, 32, g.cfg.Seed)),
		pieces.P("text-200001", pieces.Text(200001, g.cfg.Seed)),
	}
	var out []namedStream
	for _, d := range data {
		for _, l := range []int{0, 1, 6, 9, -2} {
			sink := &env.Sink{}
			w, _ := WK{Kind: "flate", Level: l}.Std(sink)
			w.Write(d.Data)
			w.Close()
			out = append(out, namedStream{fmt.Sprintf("std-L%d(%s)", l, d.Name), sink.Buf})
		}
		for _, k := range []WK{{Kind: "flate", Level: 1}, {Kind: "flate", Level: 2}, {Kind: "flate", Level: -2}, {Kind: "flate4k", Level: 1}} {
			sink := &env.Sink{}
			w, err := k.Fast(sink)
			if err != nil {
				continue
			}
			if pi := Guard(func() { w.Write(d.Data); w.Close() }); pi != nil {
				continue
			}
			out = append(out, namedStream{fmt.Sprintf("fast-%s(%s)", k, d.Name), sink.Buf})
		}
	}
	g.encoded = out
	return out
}

// litPrefix returns literal symbols that give matches some history.
func litPrefix(alpha []synth.Sym, n int) []synth.Sym {
	var lits []synth.Sym
	for _, a := range alpha {
		if a.Kind == synth.SymLit {
			lits = append(lits, a)
		}
	}
	if len(lits) == 0 {
		return nil
	}
	var out []synth.Sym
	for i := 0; i < n; i++ {
		out = append(out, lits[i%len(lits)])
	}
	return out
}

func symsString(s []synth.Sym) string {
	var p []string
	for _, x := range s {
		p = append(p, synth.SymString(x))
	}
	if len(p) > 12 {
		p = append(p[:12], fmt.Sprintf("…+%d", len(s)-12))
	}
	return strings.Join(p, " ")
}

// padTail appends what makes the assembly decode loop reachable: literals after the interesting symbols.
func padSyms(alpha []synth.Sym) []synth.Sym {
	return litPrefix(alpha, 80)
}

// choose builds one valid stream from engine choices. ok=false means the combination is not expressible.
func (g *streamGen) choose(x *mc.Exec, k int) (stream []byte, name string, ok bool) {
	fam := x.Choose(10, "family")
	switch fam {
	case 0, 1: // A: dynamic block; B: fixed block
		var blk synth.Block
		var shape string
		encOnly := false
		if fam == 0 {
			ls := g.lits[x.Choose(len(g.lits), "lit-shape")]
			ds := g.dists[x.Choose(len(g.dists), "dist-shape")]
			enc := x.Choose(4, "hdr-enc")
			// quick tier: the header-encoding dimension is explored with the literal prefix only; symbol sequences use the
			// run-length coded header (the two dimensions meet only in the header parser)
			encOnly = !g.cfg.Thorough && enc != synth.EncRepeat
			blk = synth.Block{Final: true, Type: 2, LitLens: ls.Lens, DistLens: ds.Lens, Enc: enc}
			shape = fmt.Sprintf("dyn(%s,%s,enc%d)", ls.Name, ds.Name, enc)
		} else {
			blk = synth.Block{Final: true, Type: 1}
			shape = "fixed"
		}
		lit, dist := blk.Codes()
		alpha := synth.SeqAlphabet(lit, dist)
		tail := x.Choose(3, "tail")
		var hist []byte
		if tail == 2 {
			hist = g.prefOut
		}
		syms := litPrefix(alpha, 5)
		kk := k
		if fam == 1 || strings.Contains(shape, "skew15") || strings.Contains(shape, "maxbits") {
			kk = k + 1
		}
		if encOnly {
			kk = 0
		}
		for i := 0; i < kk; i++ {
			if len(alpha) == 0 {
				break
			}
			c := x.Choose(len(alpha)+1, "sym")
			if c == 0 {
				break
			}
			s := alpha[c-1]
			if s.Kind == synth.SymMatch {
				produced := len(hist) + len(synth.Expand(hist, syms))
				if s.Dist > produced {
					return nil, "", false
				}
			}
			syms = append(syms, s)
		}
		if tail >= 1 {
			pad := padSyms(alpha)
			if pad == nil {
				// no literal in this code: pad with a following stored block instead
				blk.Final = false
				blk.Syms = syms
				w := &synth.BitWriter{}
				if tail == 2 {
					w = prefixWriter(g.prefix)
				}
				synth.BuildTo(w, blk, synth.Block{Final: true, Type: 0, Stored: bytes.Repeat([]byte{0x55}, 64)})
				return w.Bytes(), fmt.Sprintf("%s tail%d [%s]+stored64", shape, tail, symsString(syms)), true
			}
			syms = append(syms, pad...)
		}
		blk.Syms = syms
		w := &synth.BitWriter{}
		if tail == 2 {
			w = prefixWriter(g.prefix)
		}
		synth.BuildTo(w, blk)
		return w.Bytes(), fmt.Sprintf("%s tail%d [%s]", shape, tail, symsString(syms)), true
	case 2: // C: stored blocks at 8 bit offsets
		off := x.Choose(8, "bit-offset")
		lens := []int{0, 1, 2, 65535}
		n := lens[x.Choose(len(lens), "stored-len")]
		fin := x.Choose(2, "then") // 0: the stored block is final; 1: followed by a fixed block
		var lead []synth.Sym
		for i := 0; i < off; i++ {
			lead = append(lead, synth.Sym{Kind: synth.SymLit, Lit: 200}) // 9-bit codes walk the bit offset
		}
		w := &synth.BitWriter{}
		synth.BuildTo(w, synth.Block{Type: 1, Syms: lead})
		bitoff := w.Len() % 8
		blks := []synth.Block{{Type: 0, Final: fin == 0, Stored: pieces.Text(n, 3)}}
		if fin == 1 {
			blks = append(blks, synth.Block{Type: 1, Final: true, Syms: []synth.Sym{{Kind: synth.SymLit, Lit: 'x'}, {Kind: synth.SymMatch, Len: 3, Dist: 1}}})
		}
		synth.BuildTo(w, blks...)
		return w.Bytes(), fmt.Sprintf("stored(len=%d) at bit offset %d final=%v", n, bitoff, fin == 0), true
	case 3: // D: ordered pairs of shapes in consecutive blocks
		var blks []synth.Block
		var names []string
		for i := 0; i < 2; i++ {
			li := x.Choose(len(g.lits)+1, "lit-shape")
			var blk synth.Block
			if li == len(g.lits) {
				blk = synth.Block{Type: 1}
				names = append(names, "fixed")
			} else {
				ds := g.dists[x.Choose(len(g.dists), "dist-shape")]
				blk = synth.Block{Type: 2, LitLens: g.lits[li].Lens, DistLens: ds.Lens, Enc: synth.EncRepeat}
				names = append(names, fmt.Sprintf("dyn(%s,%s)", g.lits[li].Name, ds.Name))
			}
			lit, dist := blk.Codes()
			alpha := synth.SeqAlphabet(lit, dist)
			syms := litPrefix(alpha, 6)
			if i == 0 && len(syms) == 0 {
				// give the second block some history anyway
				blks = append(blks, synth.Block{Type: 0, Stored: []byte("history!")})
			}
			for _, a := range alpha {
				if a.Kind == synth.SymMatch && a.Dist <= 6 {
					syms = append(syms, a)
				}
			}
			syms = append(syms, litPrefix(alpha, 40)...)
			blk.Syms = syms
			blk.Final = i == 1
			blks = append(blks, blk)
		}
		return synth.Build(blks...), "pair " + strings.Join(names, " then "), true
	case 4: // E: many tiny blocks
		kind := x.Choose(3, "tiny-kind")
		var blks []synth.Block
		for i := 0; i < 2000; i++ {
			switch kind {
			case 0:
				blks = append(blks, synth.Block{Type: 0})
			case 1:
				blks = append(blks, synth.Block{Type: 1})
			case 2:
				blks = append(blks, synth.Block{Type: i % 2, Stored: []byte{byte(i)}, Syms: []synth.Sym{{Kind: synth.SymLit, Lit: i % 256}}})
			}
		}
		blks[len(blks)-1].Final = true
		return synth.Build(blks...), fmt.Sprintf("2000 tiny blocks kind %d", kind), true
	case 5: // F: encoder-made
		es := g.encoderStreams()
		e := es[x.Choose(len(es), "encoded")]
		return e.stream, e.name, true
	case 8: // I: small-distance sweep: every distance 1..64 x lengths around the vector widths, decoded inside the assembly loop
		d := 1 + x.Choose(64, "dist")
		L := []int{3, 4, 7, 8, 9, 15, 16, 17, 18, 31, 32, 33, 34, 47, 48, 64, 100, 257, 258}[x.Choose(19, "len")]
		dyn := x.Choose(2, "code")
		blk := synth.Block{Final: true, Type: 1}
		if dyn == 1 {
			blk = synth.Block{Final: true, Type: 2, LitLens: g.lits[0].Lens, DistLens: g.dists[4].Lens, Enc: synth.EncRepeat}
		}
		var syms []synth.Sym
		for i := 0; i < d; i++ {
			syms = append(syms, synth.Sym{Kind: synth.SymLit, Lit: 33 + (i*7)%90})
		}
		syms = append(syms, synth.Sym{Kind: synth.SymMatch, Len: L, Dist: d})
		for i := 0; i < 300; i++ {
			syms = append(syms, synth.Sym{Kind: synth.SymLit, Lit: 40 + (i*13)%80})
		}
		blk.Syms = syms
		return synth.Build(blk), fmt.Sprintf("smalldist(len=%d,dist=%d) code=%d", L, d, dyn), true
	case 9: // J: packed table entries: a code so short that pairs and triples of symbols (literal+literal,
		// literal+length, literal+literal+length, ...) share one lookup entry; every sequence up to the depth over
		// {a, b, c, match with the smallest / the largest extra bits of one length symbol} - for the first and the last
		// length symbol of every extra-bits class, incl. length 258 written as symbol 284 + extra 31
		lenSyms := []int{257, 258, 264, 265, 268, 269, 272, 273, 276, 277, 280, 281, 284, 285}
		S := lenSyms[x.Choose(len(lenSyms), "len-sym")]
		shape := x.Choose(2, "code-shape")
		lens := []uint8{2, 2, 2, 3, 3}
		if shape == 1 {
			lens = []uint8{1, 3, 3, 3, 3}
		}
		blk := synth.Block{Type: 2, LitLens: trimLitLens(synth.Assign(286, []int{'a', 'b', S, 256, 'c'}, lens)), DistLens: []uint8{1, 1}, Enc: synth.EncRepeat}
		if NewCodeLeft(blk.LitLens) != 0 {
			panic(mc.HarnessError{Msg: "packed: literal code not complete"})
		}
		lo, hi := synth.LenRange(S)
		alpha := []synth.Sym{{Kind: synth.SymLit, Lit: 'a'}, {Kind: synth.SymLit, Lit: 'b'}, {Kind: synth.SymLit, Lit: 'c'},
			{Kind: synth.SymMatch, Len: lo, Dist: 1}, {Kind: synth.SymMatch, Len: hi, Dist: 2}}
		if S == 284 {
			alpha = append(alpha, synth.Sym{Kind: synth.SymMatch, Len: 258, Dist: 1, Alt258: true})
		}
		depth := k + 1
		if g.cfg.Thorough {
			depth = k + 2
		}
		var syms []synth.Sym
		for i := 0; i < depth; i++ {
			c := x.Choose(len(alpha)+1, "sym")
			if c == 0 {
				break
			}
			syms = append(syms, alpha[c-1])
		}
		tail := x.Choose(2, "tail")
		if tail == 1 {
			for i := 0; i < 40; i++ {
				syms = append(syms, synth.Sym{Kind: synth.SymLit, Lit: 'a' + i%3})
			}
		}
		blk.Syms = syms
		final := x.Choose(2, "final")
		blk.Final = final == 1
		blks := []synth.Block{{Type: 0, Stored: []byte("hi")}, blk}
		if !blk.Final {
			blks = append(blks, synth.Block{Final: true, Type: 1})
		}
		return synth.Build(blks...), fmt.Sprintf("packed(sym%d,shape%d,final=%v) tail%d [%s]", S, shape, blk.Final, tail, symsString(syms)), true
	case 7: // H: symbols straddling the points where the 64 KiB internal output window fills (65536, then every 32768)
		ws, name := g.windowFill(x)
		return ws, name, true
	case 6: // G: single-match sweep over the fixed code and a dynamic code with all symbols
		dyn := x.Choose(2, "code")
		ln := 3 + x.Choose(257, "length") // 3..258, 259 = 258 alt encoding
		alt := false
		if ln == 259 {
			ln, alt = 258, true
		}
		ds := x.Choose(30, "dist-sym")
		which := x.Choose(2, "first/last")
		lo, hi := synth.DistRange(ds)
		d := lo
		if which == 1 {
			d = hi
		}
		if d > 32768 {
			return nil, "", false
		}
		blk := synth.Block{Final: true, Type: 1}
		if dyn == 1 {
			blk = synth.Block{Final: true, Type: 2, LitLens: g.lits[0].Lens, DistLens: g.dists[4].Lens, Enc: synth.EncRepeat}
		}
		// history: stored blocks holding d bytes
		w := &synth.BitWriter{}
		h := pieces.Text(d, uint64(d))
		for len(h) > 0 {
			n := len(h)
			if n > 65535 {
				n = 65535
			}
			synth.BuildTo(w, synth.Block{Type: 0, Stored: h[:n]})
			h = h[n:]
		}
		blk.Syms = []synth.Sym{{Kind: synth.SymMatch, Len: ln, Dist: d, Alt258: alt}}
		for i := 0; i < 40; i++ {
			blk.Syms = append(blk.Syms, synth.Sym{Kind: synth.SymLit, Lit: 'p'})
		}
		synth.BuildTo(w, blk)
		return w.Bytes(), fmt.Sprintf("match(len=%d alt=%v, dist=%d) code=%d", ln, alt, d, dyn), true
	}
	return nil, "", false
}

func prefixWriter(prefix []byte) *synth.BitWriter {
	w := &synth.BitWriter{}
	for _, b := range prefix {
		w.Byte(b)
	}
	return w
}

func c02Harness(cfg *Cfg) func(x *mc.Exec) {
	g := newStreamGen(cfg)
	k := 2
	if cfg.Thorough {
		k = 3
	}
	return func(x *mc.Exec) {
		stream, name, ok := g.choose(x, k)
		if !ok {
			return
		}
		npol := len(readPolicies)
		if !cfg.Thorough && (strings.HasPrefix(name, "match(") || strings.Contains(name, " tail2 ") || strings.HasPrefix(name, "window-fill")) {
			npol = 2 // quick tier: the expensive families get the all-at-once and 1-byte policies only
		}
		pol := readPolicies[x.Choose(npol, "read-policy")]
		want, serr := stdFlate(stream)
		if serr != nil {
			// not in the property's domain (compress/flate rejects it); the synthesiser is supposed to make valid streams
			x.Outcome("stdlib-rejects " + name)
			return
		}
		ref := refOf(stream)
		if ref.Err != nil || !bytes.Equal(ref.Out, want) || ref.EndByte != len(stream) {
			panic(mc.HarnessError{Msg: fmt.Sprintf("reference inflater disagrees with compress/flate on %s: err=%v out=%d/%d end=%d/%d", name, ref.Err, len(ref.Out), len(want), ref.EndByte, len(stream))})
		}
		if len(want) > 0 {
			x.NonTrivial()
		}
		o := fastFlate(stream, pol)
		x.Note(o.FP)
		fam := strings.SplitN(name, " ", 2)[0]
		if i := strings.IndexByte(fam, '('); i > 0 {
			fam = fam[:i]
		}
		if cls, msg := o.basicFaults(); cls != "" {
			x.Fail("C02 "+cls+" family="+fam, "%s policy=%s: %s", name, pol.Name, msg)
			return
		}
		if o.Err != io.EOF {
			x.Fail(fmt.Sprintf("C02 rejects-valid family=%s err=%s", fam, errClass(o.Err)), "%s policy=%s: compress/flate decodes %d bytes, fastgo returned %v after %d bytes", name, pol.Name, len(want), o.Err, len(o.Out))
			return
		}
		if !bytes.Equal(o.Out, want) {
			x.Fail("C02 wrong-data family="+fam, "%s policy=%s: %s", name, pol.Name, diffDesc(o.Out, want))
			return
		}
		if s := o.sticky(); s != "" {
			x.Fail("C02 eof-not-sticky family="+fam, "%s policy=%s: %s", name, pol.Name, s)
			return
		}
		x.Outcome(fmt.Sprintf("%s -> %d bytes", name, len(want)))
	}
}

var wfJ = []int{0, 1, 2, 3, 7, 8, 9, 15, 16, 17, 31, 100, 200, 257, 258, 259}
var wfLen = []int{3, 4, 17, 18, 257, 258}
var wfDist = []int{1, 2, 3, 15, 16, 17, 31, 32, 33, 100, 257, 258, 259, 4096, 32768}

// windowFill builds: stored prefix of F-j bytes, then a NON-final block (fixed, or dynamic with short codes so that
// the literal-pair/triple and literal+length table entries exist) holding nl literals, one match and more literals,
// then a final empty stored block. F is a point at which the decoder's 64 KiB output window is full.
func (g *streamGen) windowFill(x *mc.Exec) ([]byte, string) {
	nF, js := 2, wfJ
	if !g.cfg.Thorough {
		nF, js = 1, []int{0, 1, 2, 15, 16, 17, 257, 258} // quick tier: the first fill point, 8 offsets
	}
	F := []int{65536, 98304}[x.Choose(nF, "fill-point")]
	if x.Choose(2, "what-straddles") == 1 {
		// the END of a block at the fill point: its last 1..4 literals and the end-of-block code (one packed entry
		// with the short code) straddle it, and the next block follows at once
		j := x.Choose(5, "bytes-before-fill") // 0..4
		nl := 1 + x.Choose(4, "literals-before-eob")
		next := x.Choose(5, "next-block")
		return g.windowFillBlockEnd(F, j, nl, next)
	}
	j := js[x.Choose(len(js), "bytes-before-fill")]
	nl := x.Choose(3, "literals-before-match")
	L := wfLen[x.Choose(len(wfLen), "match-len")]
	d := wfDist[x.Choose(len(wfDist), "match-dist")]
	kind := x.Choose(2, "block-kind")
	return g.windowFillStream(F, j, nl, L, d, kind)
}

func (g *streamGen) windowFillStream(F, j, nl, L, d, kind int) ([]byte, string) {
	s, n, _ := g.windowFillStreamAt(F, j, nl, L, d, kind)
	return s, n
}

// windowFillStreamAt also returns the compressed byte offset at which the interesting block starts.
func (g *streamGen) windowFillStreamAt(F, j, nl, L, d, kind int) ([]byte, string, int) {
	return g.windowFillStreamLead(F, j, nl, L, d, kind, 0)
}

// windowFillStreamLead: as windowFillStreamAt, with lead literals of the same block in front of the straddling
// symbols (the assembly loop is then already running when it reaches them: it needs more than 24 bytes of input to
// start). The returned offset is the compressed position of the straddling symbols.
func (g *streamGen) windowFillStreamLead(F, j, nl, L, d, kind, lead int) ([]byte, string, int) {
	// the stored prefix ends j bytes before the fill point; the nl literals and the match follow, so that for j = 0
	// a packed literal+length entry is looked up exactly when the window is full
	P := F - j - lead
	if P < d {
		P = d
	}
	pre := g.wfPrefix(P)
	w := &synth.BitWriter{}
	for h := pre; len(h) > 0; {
		n := len(h)
		if n > 65535 {
			n = 65535
		}
		synth.BuildTo(w, synth.Block{Type: 0, Stored: h[:n]})
		h = h[n:]
	}
	blk := synth.Block{Type: 1}
	if kind == 1 {
		// 'a','b' and the two length symbols get 2-3 bit codes: pairs and triples fit the 12-bit lookup
		syms := []int{'a', 'b', 256, 257, 285, 258, 264, 265, 270, 284}
		lens := []uint8{2, 2, 4, 3, 3, 4, 5, 5, 5, 5}
		blk = synth.Block{Type: 2, LitLens: trimLitLens(synth.Assign(286, syms, lens)), DistLens: g.dists[4].Lens, Enc: synth.EncRepeat}
		if NewCodeLeft(blk.LitLens) != 0 {
			panic(mc.HarnessError{Msg: "windowFill: literal code not complete"})
		}
	}
	var syms []synth.Sym
	for i := 0; i < lead; i++ {
		syms = append(syms, synth.Sym{Kind: synth.SymLit, Lit: 'a' + (i/3)%2})
	}
	for i := 0; i < nl; i++ {
		syms = append(syms, synth.Sym{Kind: synth.SymLit, Lit: 'a' + i%2})
	}
	m := synth.Sym{Kind: synth.SymMatch, Len: L, Dist: d}
	if kind == 1 {
		// only lengths with a code in the short dynamic code: 3, 4, 10, 11-12, 17-18 via 270? keep to those expressible
		ls, _, _ := synth.LenSym(L, false)
		if !synth.NewCode(blk.LitLens).Has(ls) {
			m.Len = 258
			if L < 10 {
				m.Len = 3
			}
		}
	}
	syms = append(syms, m)
	for i := 0; i < 40; i++ {
		syms = append(syms, synth.Sym{Kind: synth.SymLit, Lit: 'a' + i%2})
	}
	syms = append(syms, synth.Sym{Kind: synth.SymMatch, Len: 258, Dist: 100})
	for i := 0; i < 40; i++ {
		syms = append(syms, synth.Sym{Kind: synth.SymLit, Lit: 'b' - i%2})
	}
	blk.Syms = syms
	at := (w.Len() + 7) / 8
	synth.BuildTo(w, blk, synth.Block{Final: true, Type: 0, Stored: []byte("end")})
	name := fmt.Sprintf("window-fill F=%d j=%d lits=%d match(%d,%d) kind=%d", F, j, nl, m.Len, d, kind)
	if lead > 0 {
		name += fmt.Sprintf(" lead=%d", lead)
		if kind == 1 {
			at += lead * 2 / 8 // 2-bit codes
		} else {
			at += lead // 8-bit codes
		}
	}
	return w.Bytes(), name, at
}

// windowFillBlockEnd: stored prefix of F-j bytes, a NON-final dynamic block with 2-4 bit codes holding nl literals
// and nothing else, then at once: 0 a fixed block starting with a literal, 1 a dynamic block starting with a
// literal, 2 a fixed block starting with a match, 3 a non-empty stored block, 4 a sync marker and then a fixed block
// starting with a literal; each of them final.
func (g *streamGen) windowFillBlockEnd(F, j, nl, next int) ([]byte, string) {
	pre := g.wfPrefix(F - j)
	w := &synth.BitWriter{}
	for h := pre; len(h) > 0; {
		n := len(h)
		if n > 65535 {
			n = 65535
		}
		synth.BuildTo(w, synth.Block{Type: 0, Stored: h[:n]})
		h = h[n:]
	}
	syms := []int{'a', 'b', 256, 257, 285, 258, 264, 265, 270, 284}
	lens := []uint8{2, 2, 4, 3, 3, 4, 5, 5, 5, 5}
	short := synth.Block{Type: 2, LitLens: trimLitLens(synth.Assign(286, syms, lens)), DistLens: g.dists[4].Lens, Enc: synth.EncRepeat}
	blk := short
	for i := 0; i < nl; i++ {
		blk.Syms = append(blk.Syms, synth.Sym{Kind: synth.SymLit, Lit: 'a' + i%2})
	}
	lits := func(n int) []synth.Sym {
		var o []synth.Sym
		for i := 0; i < n; i++ {
			o = append(o, synth.Sym{Kind: synth.SymLit, Lit: 'b' - i%2})
		}
		return o
	}
	var rest []synth.Block
	switch next {
	case 0:
		rest = []synth.Block{{Final: true, Type: 1, Syms: lits(6)}}
	case 1:
		nb := short
		nb.Final = true
		nb.Syms = lits(6)
		rest = []synth.Block{nb}
	case 2:
		rest = []synth.Block{{Final: true, Type: 1, Syms: append([]synth.Sym{{Kind: synth.SymMatch, Len: 5, Dist: 3}}, lits(4)...)}}
	case 3:
		rest = []synth.Block{{Final: true, Type: 0, Stored: []byte("stored")}}
	case 4:
		rest = []synth.Block{{Type: 0}, {Final: true, Type: 1, Syms: lits(6)}}
	}
	synth.BuildTo(w, append([]synth.Block{blk}, rest...)...)
	return w.Bytes(), fmt.Sprintf("window-fill F=%d j=%d block-end after %d literals, next=%d", F, j, nl, next)
}

func (g *streamGen) wfPrefix(n int) []byte {
	if len(g.wfData) < n {
		g.wfData = pieces.Text(100000, g.cfg.Seed+77)
	}
	return g.wfData[:n]
}

func trimLitLens(l []uint8) []uint8 {
	n := len(l)
	for n > 257 && l[n-1] == 0 {
		n--
	}
	return l[:n]
}

// NewCodeLeft reports the Kraft slack of a length vector (0 = complete).
func NewCodeLeft(l []uint8) int { return synth.NewCode(l).Left }
