package props

import (
	"bytes"
	"fmt"

	"github.com/intel/fastgo/verif/env"
	"github.com/intel/fastgo/verif/introspect"
	"github.com/intel/fastgo/verif/mc"
	"github.com/intel/fastgo/verif/pieces"
)

// C16 — any call sequence is safe: every sequence of bounded length over
// {W(empty), W(small), W(fill+1), Flush, Close, Reset} on the real Writer and,
// in lock-step, on its standard-library twin (explicit-state, merged on the
// fingerprints of both).

func allWriterKinds() []WK {
	var ks []WK
	d20 := []byte("hello world, hello dictionary")[:20]
	for l := -2; l <= 9; l++ {
		ks = append(ks, WK{Kind: "flate", Level: l}, WK{Kind: "flate4k", Level: l},
			WK{Kind: "gzip", Level: l}, WK{Kind: "zlib", Level: l})
	}
	for _, l := range []int{-2, -1, 1, 6} {
		ks = append(ks, WK{Kind: "flatedict", Level: l, Dict: d20}, WK{Kind: "zlibdict", Level: l, Dict: d20})
	}
	return ks
}

func init() {
	register(&Prop{
		ID:       "C16",
		Category: "model_checking",
		Rule: "every operation sequence up to the depth bound over {W(empty),W(small),W(fill+1),Flush,Close,Reset} for every writer kind and level, " +
			"run on the real Writer and on its compress/* twin; states = distinct (fastgo fingerprint, twin fingerprint, oracle bookkeeping); " +
			"an execution is non-trivial when it contains a Close followed by at least one more operation, or a constructor probe of an out-of-range level",
		Assumptions: []string{"compress/flate, compress/gzip, compress/zlib of the Go toolchain are the reference for which call returns an error",
			"the statement, not the twin, is the reference for 'a repeated Close emits nothing more' (compress/zlib itself re-emits its trailer)"},
		Quick:    TierSpec{MaxDev: -1, Merge: true, Shards: 4, ShardDepth: 2, BudgetS: 600},
		Thorough: TierSpec{MaxDev: -1, Merge: true, Shards: 8, ShardDepth: 3, BudgetS: 1500},
		Harness:  c16Harness,
	})
}

func c16Harness(cfg *Cfg) func(x *mc.Exec) {
	kinds := allWriterKinds()
	// gzip Writers whose header fields are set (again after every Reset): valid ones, and ones the format cannot hold,
	// which compress/gzip reports from every call that would have to write the header
	kinds = append(kinds, WK{Kind: "gzip", Level: 1, Hdr: true}, WK{Kind: "gzip", Level: 1, BadHdr: 1}, WK{Kind: "gzip", Level: -2, BadHdr: 2},
		WK{Kind: "gzip", Level: 6, BadHdr: 3}, WK{Kind: "gzip", Level: 6, BadHdr: 1})
	depth := 4
	if cfg.Thorough {
		depth = 6
	}
	small := []byte("hello, hello, hello world\n")
	bigCache := map[int][]byte{}
	big := func(k WK) []byte {
		n := k.Fill() + 1
		if !k.Accelerated() {
			n = 4097 // the delegated levels are compress/flate itself: size only costs time there
		}
		if b, ok := bigCache[n]; ok {
			return b
		}
		b := pieces.Text(n, cfg.Seed)
		bigCache[n] = b
		return b
	}
	type ctorCase struct {
		kind  string
		level int
	}
	var ctors []ctorCase
	for _, kd := range []string{"flate", "flatedict", "gzip", "zlib", "zlibdict"} {
		for l := -5; l <= 12; l++ {
			ctors = append(ctors, ctorCase{kd, l})
		}
	}
	opNames := []string{"W(empty)", "W(small)", "W(big)", "Flush", "Close", "Reset"}
	return func(x *mc.Exec) {
		ki := x.Choose(len(kinds)+1, "kind")
		if ki == len(kinds) {
			// constructor acceptance sweep
			ci := x.Choose(len(ctors), "ctor")
			c := ctors[ci]
			k := WK{Kind: c.kind, Level: c.level}
			if c.kind == "flatedict" || c.kind == "zlibdict" {
				k.Dict = []byte("dictionary")
			}
			var ferr, serr error
			var fw WC
			pi := Guard(func() { fw, ferr = k.Fast(&env.Sink{}) })
			_, serr = k.Std(&env.Sink{})
			x.NonTrivial()
			x.Outcome(fmt.Sprintf("ctor %s: fast=%s std=%s", k, nilness(ferr), nilness(serr)))
			if pi != nil {
				x.Fail("C16 ctor-panic "+c.kind, "constructor %s panics: %s", k, pi)
				return
			}
			if (ferr == nil) != (serr == nil) {
				x.Fail(fmt.Sprintf("C16 ctor-accept %s level=%d", c.kind, c.level), "constructor %s: fastgo err=%v, stdlib err=%v", k, ferr, serr)
			}
			if ferr == nil && fw == nil {
				x.Fail("C16 ctor-nil "+c.kind, "constructor %s returned nil writer and nil error", k)
			}
			return
		}
		k := kinds[ki]
		fsink, ssink := &env.Sink{}, &env.Sink{}
		var fw, sw WC
		var err error
		if pi := Guard(func() { fw, err = k.Fast(fsink) }); pi != nil || err != nil {
			x.Fail("C16 ctor "+k.Kind, "constructing %s: err=%v panic=%v", k, err, pi)
			return
		}
		if sw, err = k.Std(ssink); err != nil {
			panic(mc.HarnessError{Msg: "stdlib twin rejects " + k.String()})
		}
		var data []byte   // written since the last Reset, before the first successful Close
		closedOK := false // a Close has returned nil since the last Reset
		lenAtClose := 0   // bytes emitted at that moment
		sawAfterClose := false
		hist := ""
		for step := 0; step < depth; step++ {
			op := x.Choose(len(opNames), "op")
			hist += opNames[op] + " "
			var ferr, serr error
			var fn, sn int
			var wdata []byte
			before := len(fsink.Buf)
			pi := Guard(func() {
				switch op {
				case 0:
					wdata = []byte{}
					fn, ferr = fw.Write(wdata)
				case 1:
					wdata = small
					fn, ferr = fw.Write(wdata)
				case 2:
					wdata = big(k)
					fn, ferr = fw.Write(wdata)
				case 3:
					ferr = fw.Flush()
				case 4:
					ferr = fw.Close()
				case 5:
					fsink = &env.Sink{}
					fw.Reset(fsink)
					k.ApplyHdr(fw)
				}
			})
			switch op {
			case 0, 1, 2:
				sn, serr = sw.Write(wdata)
			case 3:
				serr = sw.Flush()
			case 4:
				serr = sw.Close()
			case 5:
				ssink = &env.Sink{}
				sw.Reset(ssink)
				k.ApplyHdr(sw)
			}
			x.Logf("%s: fast (n=%d err=%v) std (n=%d err=%v) emitted %d->%d", opNames[op], fn, ferr, sn, serr, before, len(fsink.Buf))
			state := "open"
			if closedOK {
				state = "closed"
				sawAfterClose = true
				x.NonTrivial()
			}
			if pi != nil {
				x.Fail(fmt.Sprintf("C16 panic %s op=%s state=%s", k.Kind+accTag(k), opNames[op], state), "%s: %s after [%s] panics: %s", k, opNames[op], hist, pi)
				return
			}
			if (ferr == nil) != (serr == nil) {
				x.Fail(fmt.Sprintf("C16 err-mismatch %s op=%s state=%s fast=%s std=%s", k.Kind+accTag(k), opNames[op], state, nilness(ferr), nilness(serr)),
					"%s after [%s]: fastgo returned %v, compress/* twin returned %v", k, hist, ferr, serr)
				return
			}
			if op <= 2 && ferr == nil && fn != len(wdata) {
				x.Fail("C16 short-write "+k.Kind+accTag(k), "%s after [%s]: Write returned n=%d of %d with nil error", k, hist, fn, len(wdata))
				return
			}
			switch op {
			case 0, 1, 2:
				if !closedOK && ferr == nil {
					data = append(data, wdata...)
				}
			case 5:
				data = data[:0]
				closedOK = false
				before = 0
			}
			if closedOK && op != 5 {
				if len(fsink.Buf) != lenAtClose {
					x.Fail(fmt.Sprintf("C16 emit-after-close %s op=%s", k.Kind+accTag(k), opNames[op]),
						"%s after [%s]: %d more bytes emitted after a successful Close", k, hist, len(fsink.Buf)-lenAtClose)
					return
				}
			}
			if op == 4 && ferr == nil && !closedOK {
				closedOK = true
				lenAtClose = len(fsink.Buf)
				if cls, msg := CheckStream(k, fsink.Buf, data); cls != "" {
					x.Fail(fmt.Sprintf("C16 stream-at-close %s %s", k.Kind+accTag(k), cls), "%s after [%s]: %s", k, hist, msg)
					return
				}
			}
			fp := introspect.Mix(uint64(ki), introspect.Fingerprint(fw), introspect.Fingerprint(sw),
				introspect.Bytes(data), introspect.Bytes(fsink.Buf), introspect.Bytes(ssink.Buf), b2u(closedOK), uint64(lenAtClose))
			if !x.State(fp, depth-step-1) {
				break
			}
		}
		_ = sawAfterClose
		x.Outcome(fmt.Sprintf("%s closed=%v out=%d eq=%v", k.Kind, closedOK, len(fsink.Buf), bytes.Equal(fsink.Buf, ssink.Buf)))
	}
}

func accTag(k WK) string {
	if k.Accelerated() {
		if k.Level == -2 {
			return "(huffman-only)"
		}
		return "(accelerated)"
	}
	return "(delegated)"
}

func b2u(b bool) uint64 {
	if b {
		return 1
	}
	return 0
}
