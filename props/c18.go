package props

import (
	"bytes"
	"fmt"
	"sort"
	"strconv"
	"strings"

	"github.com/intel/fastgo/verif/env"
	"github.com/intel/fastgo/verif/introspect"
	"github.com/intel/fastgo/verif/mc"
	"github.com/intel/fastgo/verif/synth"
)

// C18 — results do not depend on which CPU acceleration level is selected.

func init() {
	register(&Prop{
		ID:       "C18",
		Category: "model_checking",
		Rule: "the same finite case set is enumerated in one process per runnable acceleration level: (1) the valid-stream grammar of C02 (sequence length reduced by one in quick) x Read policies {1 MiB, 7}; (2) every bit continuation up to 10 (quick) / 13 (thorough) bits after each catalogue header incl. incomplete codes, bare and padded, first and later block; the header-run and single-fault catalogue; every cut and bit flip of the short corpus; " +
			"(3) the short corpus and long streams, whole and cut, through bufio {none,16} x delivery {one call, 1, 13 bytes}; every case records a digest of (output bytes, kind of outcome); the driver joins the per-level tables and requires identical digests; " +
			"compressed bytes are not compared across levels (match choices may differ): the compressor is covered by every writer-side check running at every level; non-trivial = the case was executed at two or more levels",
		Assumptions: []string{"levels that the host cannot execute are not compared (named below)", "the compressor half of the statement is established by C01, C09, C10, C12, C14, C19, C20 running at every level"},
		Quick:       TierSpec{MaxDev: -1, Shards: 4, ShardDepth: 3, BudgetS: 600},
		Thorough:    TierSpec{MaxDev: -1, Shards: 8, ShardDepth: 3, BudgetS: 1700},
		Harness:     c18Harness,
		Join:        c18Join,
		Levels:      func(avail []int, thorough bool) []int { return avail },
	})
}

func c18Harness(cfg *Cfg) func(x *mc.Exec) {
	g := newStreamGen(cfg)
	pairs := c03Pairs()
	hdrFaults := headerRunFaults()
	faults := singleFaults()
	// inputs must be identical at every level: streams made by fastgo's own (level-dependent) encoder are left out
	var corpus []namedStream
	for _, s := range shortCorpus(g) {
		if !strings.HasPrefix(s.name, "fast-") {
			corpus = append(corpus, s)
		}
	}
	var c4 []c04stream
	for _, s := range c04Corpus(g) {
		if !strings.HasPrefix(s.name, "fast-") {
			c4 = append(c4, s)
		}
	}
	k := 1
	maxBits := 10
	if cfg.Thorough {
		k = 2
		maxBits = 13
	}
	leadBlock := synth.Block{Type: 2, LitLens: synth.LitShapes()[2].Lens, DistLens: synth.DistShapes()[5].Lens, Enc: synth.EncRepeat,
		Syms: []synth.Sym{{Kind: synth.SymLit, Lit: 'a'}, {Kind: synth.SymLit, Lit: 'b'}, {Kind: synth.SymMatch, Len: 3, Dist: 1}, {Kind: synth.SymMatch, Len: 3, Dist: 2}}}
	pol2 := []env.ReadPolicy{env.PolicyAll, env.Policy7}
	record := func(x *mc.Exec, o readOutcome) {
		x.NonTrivial()
		x.Note(o.FP)
		var d string
		if cls, _ := o.basicFaults(); cls != "" {
			d = "FAULT:" + cls
		} else {
			d = fmt.Sprintf("%d:%016x:%s", len(o.Out), introspect.Bytes2(o.Out), errClass(o.Err))
		}
		x.Table(choiceKey(x.Choices()), d)
		x.Outcome(d)
	}
	return func(x *mc.Exec) {
		part := x.Choose(3, "part")
		switch part {
		case 0:
			stream, name, ok := g.choose(x, k)
			if !ok || strings.HasPrefix(name, "fast-") {
				return
			}
			pol := pol2[x.Choose(2, "read-policy")]
			record(x, fastFlate(stream, pol))
		case 1:
			sub := x.Choose(3, "sub")
			switch sub {
			case 0:
				pi := x.Choose(len(pairs)+1, "code")
				pos := x.Choose(2, "position")
				pad := x.Choose(2, "padded")
				L := x.Choose(maxBits+1, "nbits")
				v := 0
				if L > 0 {
					v = x.Choose(1<<uint(L), "bits")
				}
				blk := synth.Block{Final: true, Type: 1, NoEOB: true}
				if pi < len(pairs) {
					p := pairs[pi]
					blk = synth.Block{Final: true, Type: 2, LitLens: p.lit, DistLens: p.dist, Enc: p.enc, NoEOB: true}
				}
				w := &synth.BitWriter{}
				if pos == 1 {
					synth.BuildTo(w, leadBlock)
				}
				blk.WriteHeader(w)
				w.Bits(uint32(v), L)
				stream := w.Bytes()
				if pad == 1 {
					stream = append(stream, bytes.Repeat([]byte{0}, 40)...)
				}
				record(x, fastFlate(stream, env.PolicyAll))
			case 1:
				var ns namedStream
				if x.Choose(2, "fault-family") == 0 {
					ns = hdrFaults[x.Choose(len(hdrFaults), "header-run")]
				} else {
					ns = faults[x.Choose(len(faults), "fault")]
				}
				record(x, fastFlate(ns.stream, pol2[x.Choose(2, "read-policy")]))
			case 2:
				cs := corpus[x.Choose(len(corpus), "stream")]
				var in []byte
				if x.Choose(2, "mutation") == 0 {
					in = cs.stream[:x.Choose(len(cs.stream), "cut-at")]
				} else {
					bit := x.Choose(len(cs.stream)*8, "flip-bit")
					in = append([]byte{}, cs.stream...)
					in[bit/8] ^= 1 << uint(bit%8)
				}
				record(x, fastFlate(in, env.PolicyAll))
			}
		case 2:
			cs := c4[x.Choose(len(c4), "stream")]
			var cuts []int
			if !cs.long {
				for c := 0; c < len(cs.stream); c += 3 {
					cuts = append(cuts, c)
				}
			} else {
				n := len(cs.stream)
				cuts = []int{1, 100, 4095, 4096, 4097, n / 2, n - 9, n - 1}
			}
			ci := x.Choose(len(cuts)+1, "cut")
			in := cs.stream
			if ci > 0 {
				in = cs.stream[:cuts[ci-1]]
			}
			spec := srcSpec{Name: "src"}
			spec.Bufio = []int{0, 16}[x.Choose(2, "bufio")]
			spec.Chunk = []int{0, 1, 13}[x.Choose(3, "chunk")]
			if cs.long && spec.Chunk == 1 && spec.Bufio == 0 {
				return
			}
			r, _, _ := spec.open(in)
			record(x, drainReader(r, env.PolicyAll))
		}
	}
}

func choiceKey(c []int) string {
	var b strings.Builder
	for i, v := range c {
		if i > 0 {
			b.WriteByte(',')
		}
		b.WriteString(strconv.Itoa(v))
	}
	return b.String()
}

func c18Join(tables map[int]map[string]string) []mc.Violation {
	var levels []int
	for l := range tables {
		levels = append(levels, l)
	}
	sort.Ints(levels)
	if len(levels) < 2 {
		return nil
	}
	var out []mc.Violation
	seenKey := map[string]bool{}
	base := tables[levels[0]]
	keys := make([]string, 0, len(base))
	for k := range base {
		keys = append(keys, k)
	}
	sort.Strings(keys)
	for _, key := range keys {
		d0 := base[key]
		for _, l := range levels[1:] {
			d, ok := tables[l][key]
			if !ok || d == d0 {
				continue
			}
			parts := strings.Split(key, ",")
			fam := parts[0]
			if len(parts) > 1 {
				fam += "/" + parts[1]
			}
			vk := fmt.Sprintf("C18 cross-level-mismatch part=%s levels=%d-vs-%d", fam, levels[0], l)
			if seenKey[vk] {
				for i := range out {
					if out[i].Key == vk {
						out[i].Count++
					}
				}
				continue
			}
			seenKey[vk] = true
			var choices []int
			for _, p := range parts {
				n, _ := strconv.Atoi(p)
				choices = append(choices, n)
			}
			out = append(out, mc.Violation{Key: vk, Msg: fmt.Sprintf("case %s: level %d gives %s, level %d gives %s (digest = bytes:hash:outcome)", key, levels[0], d0, l, d), Choices: choices, Count: 1})
		}
	}
	return out
}
