package props

import (
	"bytes"
	"fmt"
	"os"
	"strconv"

	"github.com/intel/fastgo/verif/env"
	"github.com/intel/fastgo/verif/pieces"
)

// Probe pushes a small workload through every assembly routine the current
// acceleration level selects; an unsupported instruction kills the process.
func Probe() error {
	if s := os.Getenv("FASTGO_VERIF_ARCHLEVEL"); s != "" {
		if n, err := strconv.Atoi(s); err != nil || n != ArchLevel() {
			return fmt.Errorf("override %q not effective: level is %d (built without -tags verif?)", s, ArchLevel())
		}
	}
	data := append(pieces.Text(150000, 1), pieces.Rand(70000, 2)...)
	data = append(data, pieces.Fib(70000, 30, 3)...)
	for _, k := range []WK{{Kind: "flate", Level: 1}, {Kind: "flate", Level: 2}, {Kind: "flate", Level: -2}, {Kind: "flate4k", Level: 1}, {Kind: "flate4k", Level: 2}, {Kind: "gzip", Level: -1}} {
		sink := &env.Sink{}
		w, err := k.Fast(sink)
		if err != nil {
			return err
		}
		if _, err := w.Write(data); err != nil {
			return err
		}
		if err := w.Close(); err != nil {
			return err
		}
		kind := k.Kind
		if kind == "flate4k" {
			kind = "flate"
		}
		out, _, err, pi := FastDecode(kind, sink.Buf, nil)
		if pi != nil {
			return fmt.Errorf("%s: %s", k, pi)
		}
		if err != nil || !bytes.Equal(out, data) {
			// a wrong result is for the checks to report, not for the probe
			continue
		}
	}
	return nil
}
