package props

import (
	"bufio"
	"bytes"
	"fmt"
	"io"
	"strings"

	fflate "github.com/intel/fastgo/compress/flate"
	fgzip "github.com/intel/fastgo/compress/gzip"
	"github.com/intel/fastgo/verif/env"
	"github.com/intel/fastgo/verif/mc"
	"github.com/intel/fastgo/verif/synth"
)

// C05 — after io.EOF the source is positioned exactly at the end of the DEFLATE stream.

func init() {
	register(&Prop{
		ID:       "C05",
		Category: "model_checking",
		Rule: "streams: the short corpus, end-of-block at every bit offset, a stored block last, long encoder-made streams, streams that end just before, exactly at, or a few compressed bytes after the point where the decoder's 64 KiB output window is full, and the whole valid-stream grammar of C02 (sequence length 1) with an 8-byte suffix through bufio 16/4096/65536; gzip and zlib containers incl. two members read one by one; " +
			"x suffix in {none, 1 byte, 8 bytes, 5000 bytes, a valid next block header} x source kind in {*bufio.Reader of 13 sizes given to NewReader, the same given to Reset, bytes.Reader, bytes.Buffer, strings.Reader, custom io.ByteReader} x Read policy {1, 4096, 1 MiB}; " +
			"oracle: after io.EOF the bytes still readable from the source are exactly the suffix; non-trivial = the suffix is not empty",
		Assumptions: []string{"the bytes left in the source are observed by draining the very object the Reader was given"},
		Quick:       TierSpec{MaxDev: -1, Shards: 4, ShardDepth: 3, BudgetS: 600},
		Thorough:    TierSpec{MaxDev: -1, Shards: 8, ShardDepth: 3, BudgetS: 1200},
		Harness:     c05Harness,
	})
}

type srcKind struct {
	name  string
	bufio int
	reset bool
}

func c05SourceKinds() []srcKind {
	var ks []srcKind
	for _, b := range bufioSizes {
		ks = append(ks, srcKind{fmt.Sprintf("bufio%d", b), b, false}, srcKind{fmt.Sprintf("bufio%d", b), b, true})
	}
	for _, n := range []string{"bytes.Reader", "bytes.Buffer", "strings.Reader", "custom-ByteReader"} {
		ks = append(ks, srcKind{n, 0, false}, srcKind{n, 0, true})
	}
	return ks
}

// mkSource builds the source object of the given kind over data and a function draining what is left in it.
func (k srcKind) mkSource(data []byte) (io.Reader, func() []byte) {
	switch {
	case k.bufio > 0:
		br := bufio.NewReaderSize(bytes.NewReader(data), k.bufio)
		return br, func() []byte { b, _ := io.ReadAll(br); return b }
	case k.name == "bytes.Reader":
		r := bytes.NewReader(data)
		return r, func() []byte { b, _ := io.ReadAll(r); return b }
	case k.name == "bytes.Buffer":
		r := bytes.NewBuffer(append([]byte{}, data...))
		return r, func() []byte { return r.Bytes() }
	case k.name == "strings.Reader":
		r := strings.NewReader(string(data))
		return r, func() []byte { b, _ := io.ReadAll(r); return b }
	default:
		r := &env.ByteSource{Source: *env.NewSource(data)}
		return r, func() []byte { return r.Rest() }
	}
}

func (k srcKind) class() string {
	if k.bufio > 0 {
		return "bufio"
	}
	return k.name
}

func c05Harness(cfg *Cfg) func(x *mc.Exec) {
	g := newStreamGen(cfg)
	var streams []namedStream
	streams = append(streams, shortCorpus(g)...)
	for off := 0; off < 8; off++ {
		var lead []synth.Sym
		for i := 0; i < off; i++ {
			lead = append(lead, synth.Sym{Kind: synth.SymLit, Lit: 200})
		}
		streams = append(streams, namedStream{fmt.Sprintf("fixed-eob-after-%d-9bit-literals", off), synth.Build(synth.Block{Final: true, Type: 1, Syms: lead})})
		streams = append(streams, namedStream{fmt.Sprintf("stored-last-after-%d-9bit-literals", off), synth.Build(synth.Block{Type: 1, Syms: lead}, synth.Block{Final: true, Type: 0, Stored: []byte("tail")})})
	}
	for _, e := range g.encoderStreams() {
		if e.name == "std-L6(text-200001)" || e.name == "fast-flate/L1(r3-70001)" || e.name == "std-L0(rand-66000)" || e.name == "fast-flate/L-2(text5000)" || e.name == "std-L9(text5000)" {
			streams = append(streams, e)
		}
	}
	conts := containerCorpus(cfg.Seed, true)
	kinds := c05SourceKinds()
	nextHdr := synth.Build(synth.Block{Type: 2, LitLens: synth.LitShapes()[1].Lens, DistLens: synth.DistShapes()[4].Lens, NoEOB: true})
	suffixes := []namedStream{{"none", nil}, {"1byte", []byte{0x42}}, {"8bytes", []byte("SUFFIX!!")}, {"5000bytes", bytes.Repeat([]byte("0123456789"), 500)}, {"next-header", nextHdr}}
	pols := []env.ReadPolicy{env.PolicyAll, env.Policy4096, env.Policy1}
	return func(x *mc.Exec) {
		family := x.Choose(4, "family")
		if family == 3 {
			// the stream ends exactly at / just around the point where the decoder's 64 KiB output window is full
			// stored prefix ending a bytes before the fill point, then a FINAL fixed block of nl literals and m
			// matches of length 258: the stream ends just before, exactly at, or a few compressed bytes after the
			// pause the decoder makes when its output window is full
			a := []int{0, 1, 2, 3, 100, 300}[x.Choose(6, "prefix-ends-before-fill")]
			nl := x.Choose(3, "final-literals")
			m := x.Choose(3, "final-matches")
			sk := []srcKind{{"bufio16", 16, false}, {"bufio4096", 4096, true}, {"bufio65536", 65536, false}}[x.Choose(3, "source")]
			pol := []env.ReadPolicy{env.PolicyAll, env.Policy4096, env.Policy7}[x.Choose(3, "read-policy")]
			suf := suffixes[1+x.Choose(len(suffixes)-1, "suffix")]
			pre := g.wfPrefix(65536 - a)
			w := &synth.BitWriter{}
			for h := pre; len(h) > 0; {
				n := len(h)
				if n > 65535 {
					n = 65535
				}
				synth.BuildTo(w, synth.Block{Type: 0, Stored: h[:n]})
				h = h[n:]
			}
			var syms []synth.Sym
			for i := 0; i < nl; i++ {
				syms = append(syms, synth.Sym{Kind: synth.SymLit, Lit: 'a' + i})
			}
			for i := 0; i < m; i++ {
				syms = append(syms, synth.Sym{Kind: synth.SymMatch, Len: 258, Dist: 17})
			}
			synth.BuildTo(w, synth.Block{Final: true, Type: 1, Syms: syms})
			total := 65536 - a + nl + 258*m
			stream := w.Bytes()
			x.NonTrivial()
			data := append(append([]byte{}, stream...), suf.stream...)
			src, rest := sk.mkSource(data)
			var r io.Reader
			if sk.reset {
				r = resetFastFlateOn(src)
			} else {
				r = newFastFlateOn(src)
			}
			o := drainReader(r, pol)
			x.Note(o.FP)
			desc := fmt.Sprintf("flate stream of %d output bytes (output window fills at 65536; final block: %d literals, %d matches of 258) + suffix %s via %s (reset=%v) policy=%s", total, nl, m, suf.name, sk.name, sk.reset, pol.Name)
			if cls, msg := o.basicFaults(); cls != "" {
				x.Fail("C05 "+cls, "%s: %s", desc, msg)
				return
			}
			if o.Err != io.EOF || len(o.Out) != total {
				x.Fail(fmt.Sprintf("C05 not-eof flate source=%s ctor=%s", sk.class(), ctorName(sk.reset)), "%s: ended with %v after %d bytes", desc, o.Err, len(o.Out))
				return
			}
			if left := rest(); !bytes.Equal(left, suf.stream) {
				x.Fail(mispKey(sk, "flate ctor="+ctorName(sk.reset)+" end-at-window-fill"), "%s: %d bytes left in the source after io.EOF, want exactly the %d suffix bytes", desc, len(left), len(suf.stream))
				return
			}
			x.Outcome(desc)
			return
		}
		if family == 2 {
			// the whole valid-stream grammar of C02 (end-of-block at every bit offset, every block type and code shape last)
			// with an 8-byte suffix through the two ends of the bufio range and both constructors
			stream, name, ok := g.choose(x, 1)
			if !ok {
				return
			}
			if !cfg.Thorough && (strings.HasPrefix(name, "match(") || strings.Contains(name, " tail2 ") || len(stream) > 20000) {
				return // quick tier: the match sweep, the 64 KiB-prefix tail and long streams are left to the thorough tier
			}
			if _, err := stdFlate(stream); err != nil {
				return
			}
			sk := []srcKind{{"bufio16", 16, false}, {"bufio16", 16, true}, {"bufio4096", 4096, false}, {"bufio65536", 65536, true}}[x.Choose(4, "source")]
			pol := []env.ReadPolicy{env.PolicyAll, env.Policy7}[x.Choose(2, "read-policy")]
			if len(stream) > 20000 && pol.Name != "1MiB" {
				return
			}
			suf := []byte("SUFFIX!!")
			x.NonTrivial()
			data := append(append([]byte{}, stream...), suf...)
			src, rest := sk.mkSource(data)
			var r io.Reader
			if pi := Guard(func() {
				if sk.reset {
					r = resetFastFlateOn(src)
				} else {
					r = newFastFlateOn(src)
				}
			}); pi != nil {
				x.Fail("C05 panic "+pi.Site, "%s", pi)
				return
			}
			o := drainReader(r, pol)
			x.Note(o.FP)
			desc := fmt.Sprintf("flate %s + 8-byte suffix via %s (reset=%v) policy=%s", name, sk.name, sk.reset, pol.Name)
			if cls, msg := o.basicFaults(); cls != "" {
				x.Fail("C05 "+cls, "%s: %s", desc, msg)
				return
			}
			if o.Err != io.EOF {
				x.Fail(fmt.Sprintf("C05 not-eof flate source=%s ctor=%s", sk.class(), ctorName(sk.reset)), "%s: ended with %v", desc, o.Err)
				return
			}
			if left := rest(); !bytes.Equal(left, suf) {
				x.Fail(mispKey(sk, "flate ctor="+ctorName(sk.reset)), "%s: %d bytes left in the source after io.EOF, want exactly the 8 suffix bytes", desc, len(left))
				return
			}
			x.Outcome(desc)
			return
		}
		sk := kinds[x.Choose(len(kinds), "source")]
		suf := suffixes[x.Choose(len(suffixes), "suffix")]
		pol := pols[x.Choose(len(pols), "read-policy")]
		if len(suf.stream) > 0 {
			x.NonTrivial()
		}
		if family == 0 {
			st := streams[x.Choose(len(streams), "stream")]
			if len(st.stream) > 20000 && pol.Name == "1" {
				return
			}
			data := append(append([]byte{}, st.stream...), suf.stream...)
			src, rest := sk.mkSource(data)
			var r io.Reader
			if pi := Guard(func() {
				if sk.reset {
					r = resetFastFlateOn(src)
				} else {
					r = newFastFlateOn(src)
				}
			}); pi != nil {
				x.Fail("C05 panic "+pi.Site, "%s", pi)
				return
			}
			o := drainReader(r, pol)
			x.Note(o.FP)
			desc := fmt.Sprintf("flate %s + suffix %s via %s (reset=%v) policy=%s", st.name, suf.name, sk.name, sk.reset, pol.Name)
			if cls, msg := o.basicFaults(); cls != "" {
				x.Fail("C05 "+cls, "%s: %s", desc, msg)
				return
			}
			if o.Err != io.EOF {
				x.Fail(fmt.Sprintf("C05 not-eof flate source=%s ctor=%s", sk.class(), ctorName(sk.reset)), "%s: ended with %v", desc, o.Err)
				return
			}
			left := rest()
			if !bytes.Equal(left, suf.stream) {
				x.Fail(mispKey(sk, "flate ctor="+ctorName(sk.reset)),
					"%s: %d bytes left in the source after io.EOF, want exactly the %d suffix bytes", desc, len(left), len(suf.stream))
				return
			}
			x.Outcome(desc)
			return
		}
		// containers: gzip member by member and zlib
		c := conts[x.Choose(len(conts), "container")]
		if len(c.bytes) > 2000 && pol.Name == "1" {
			return
		}
		data := append(append([]byte{}, c.bytes...), suf.stream...)
		src, rest := sk.mkSource(data)
		desc := fmt.Sprintf("%s + suffix %s via %s policy=%s", c.name, suf.name, sk.name, pol.Name)
		if c.kind.Kind == "zlib" {
			var r io.Reader
			var err error
			if pi := Guard(func() { r, err = c.kind.OpenFast(src) }); pi != nil {
				x.Fail("C05 panic "+pi.Site, "%s: %s", desc, pi)
				return
			}
			if err != nil {
				x.Fail(fmt.Sprintf("C05 not-eof zlib source=%s", sk.class()), "%s: NewReader: %v", desc, err)
				return
			}
			o := drainReader(r, pol)
			x.Note(o.FP)
			if cls, msg := o.basicFaults(); cls != "" {
				x.Fail("C05 "+cls, "%s: %s", desc, msg)
				return
			}
			if o.Err != io.EOF || !bytes.Equal(o.Out, c.payload) {
				x.Fail(fmt.Sprintf("C05 not-eof zlib source=%s", sk.class()), "%s: ended with %v after %d of %d bytes", desc, o.Err, len(o.Out), len(c.payload))
				return
			}
			left := rest()
			if !bytes.Equal(left, suf.stream) {
				x.Fail(mispKey(sk, "zlib"), "%s: %d bytes left in the source after io.EOF, want exactly the %d suffix bytes", desc, len(left), len(suf.stream))
				return
			}
			x.Outcome(desc)
			return
		}
		// gzip: read member by member with Multistream(false) + Reset on the same source
		var zr *fgzip.Reader
		var err error
		if pi := Guard(func() { zr, err = fgzip.NewReader(src) }); pi != nil {
			x.Fail("C05 panic "+pi.Site, "%s: %s", desc, pi)
			return
		}
		if err != nil {
			x.Fail(fmt.Sprintf("C05 not-eof gzip source=%s", sk.class()), "%s: NewReader: %v", desc, err)
			return
		}
		var all []byte
		for m := 0; m < len(c.members); m++ {
			zr.Multistream(false)
			o := drainReader(zr, pol)
			x.Note(o.FP)
			if cls, msg := o.basicFaults(); cls != "" {
				x.Fail("C05 "+cls, "%s: %s", desc, msg)
				return
			}
			if o.Err != io.EOF {
				x.Fail(fmt.Sprintf("C05 not-eof gzip source=%s member=%d", sk.class(), m), "%s: member %d ended with %v after %d bytes", desc, m, o.Err, len(o.Out))
				return
			}
			all = append(all, o.Out...)
			if m+1 < len(c.members) {
				var rerr error
				if pi := Guard(func() { rerr = zr.Reset(src) }); pi != nil {
					x.Fail("C05 panic "+pi.Site, "%s: Reset: %s", desc, pi)
					return
				}
				if rerr != nil {
					x.Fail(mispKey(sk, "gzip between-members"), "%s: Reset for member %d: %v", desc, m+1, rerr)
					return
				}
			}
		}
		if !bytes.Equal(all, c.payload) {
			x.Fail(fmt.Sprintf("C05 wrong-payload gzip source=%s", sk.class()), "%s: %s", desc, diffDesc(all, c.payload))
			return
		}
		left := rest()
		if !bytes.Equal(left, suf.stream) {
			x.Fail(mispKey(sk, "gzip"), "%s: %d bytes left in the source after the last member's io.EOF, want exactly the %d suffix bytes", desc, len(left), len(suf.stream))
			return
		}
		x.Outcome(desc)
	}
}

func ctorName(reset bool) string {
	if reset {
		return "Reset"
	}
	return "NewReader"
}

var _ = fflate.NewReader

// mispKey: every non-bufio source kind is one class (the Reader wraps it in an internal bufio and over-reads);
// a mis-positioned *bufio.Reader is keyed by where it happened.
func mispKey(sk srcKind, where string) string {
	if sk.bufio > 0 {
		return "C05 mispositioned source=bufio " + where
	}
	return "C05 mispositioned source=" + sk.class()
}
