package props

import (
	"bytes"
	"fmt"
	"io"
	"sort"
	"strings"

	fflate "github.com/intel/fastgo/compress/flate"
	"github.com/intel/fastgo/verif/env"
	"github.com/intel/fastgo/verif/mc"
	"github.com/intel/fastgo/verif/pieces"
	"github.com/intel/fastgo/verif/refinflate"
	"github.com/intel/fastgo/verif/synth"
)

// C03 — malformed input is rejected: no panic, no hang, no invented data, stdlib errors.

func init() {
	register(&Prop{
		ID:       "C03",
		Category: "model_checking",
		Rule: "(a) EVERY byte string of length <=2 (quick) / <=3 (thorough) as the whole input; (b) for the fixed code and ~57 dynamic code pairs (each catalogue shape and each variant made incomplete by dropping its shortest / longest code), in first-block position and after a block that filled the tables with a different complete code: a valid header followed by EVERY bit string of length <=11 (12 for the fixed code; quick) / <=15 (thorough), bare and padded with 40 bytes so the assembly loop runs; " +
			"(c) single-fault streams: distance beyond the data produced, over-subscribed and missing-EOB headers, repeat with nothing to repeat, header runs 16/17/18 at every start position that ends within [end-2, end+max] or crosses the literal/distance boundary for HLIT in {0,1,29} x HDIST in {0,29}, stored length check, reserved type, symbols 286/287/30/31, HLIT/HDIST out of range; (d) every truncation and every single-bit flip of short valid streams; each as a fresh Reader and (c,d) also in a Reader reused through Reset; " +
			"oracle against the permissive reference inflater (upper bound) and compress/flate (lower bound); non-trivial = the input is at least 2 bytes long",
		Assumptions: []string{"the permissive reference inflater decides what 'begins with a complete well-formed stream' means and which bytes may be handed out",
			"'no hang' is decided by a livelock counter (1000 consecutive empty reads) and the driver's worker timeout, not by proof"},
		Quick:    TierSpec{MaxDev: -1, Shards: 8, ShardDepth: 4, BudgetS: 600},
		Thorough: TierSpec{MaxDev: -1, Shards: 16, ShardDepth: 4, BudgetS: 2400},
		Harness:  c03Harness,
	})
}

// judgeMalformed applies the C03 oracle to one input.
func judgeMalformed(x *mc.Exec, prop, site, name string, stream []byte, o readOutcome, knownPrefix bool) bool {
	x.Note(o.FP)
	if cls, msg := o.basicFaults(); cls != "" {
		x.Fail(fmt.Sprintf("%s %s %s", prop, cls, site), "%s: %s", name, msg)
		return false
	}
	ref := refOf(stream)
	ec := errClass(o.Err)
	// bytes handed out must be bytes the reference also produces at that position
	n := len(o.Out)
	if n > len(ref.Out) || !bytes.Equal(o.Out, ref.Out[:n]) {
		x.Fail(fmt.Sprintf("%s fabricated-data %s ref=%s", prop, site, refKind(ref)),
			"%s: fastgo handed out %d bytes then %v; the reference produced %d bytes then %v: %s", name, n, o.Err, len(ref.Out), ref.Err, diffDesc(o.Out, ref.Out))
		return false
	}
	switch {
	case ref.Err == nil:
		// a complete stream (possibly with trailing bytes): EOF expected unless compress/flate itself rejects it (strictness about unused incomplete codes)
		if o.Err == io.EOF {
			if n != len(ref.Out) {
				x.Fail(fmt.Sprintf("%s short-output %s", prop, site), "%s: io.EOF after %d of %d bytes", name, n, len(ref.Out))
				return false
			}
		} else {
			if _, serr := stdFlate(stream); serr == nil {
				x.Fail(fmt.Sprintf("%s rejects-valid %s err=%s", prop, site, ec), "%s: compress/flate accepts this input, fastgo returned %v", name, o.Err)
				return false
			}
			if ec != "Corrupt" && ec != "UnexpectedEOF" {
				x.Fail(fmt.Sprintf("%s wrong-error %s err=%s", prop, site, ec), "%s: returned %v", name, o.Err)
				return false
			}
		}
	case ref.Truncated:
		if o.Err == io.EOF {
			x.Fail(fmt.Sprintf("%s eof-on-truncated %s", prop, site), "%s: input ends inside the stream (reference: %v) but fastgo reported io.EOF after %d bytes", name, ref.Err, n)
			return false
		}
		if knownPrefix && ec != "UnexpectedEOF" {
			x.Fail(fmt.Sprintf("%s truncated-not-unexpected-eof %s err=%s", prop, site, ec), "%s: a valid stream cut short must end in io.ErrUnexpectedEOF, got %v", name, o.Err)
			return false
		}
		if ec != "UnexpectedEOF" && ec != "Corrupt" {
			x.Fail(fmt.Sprintf("%s wrong-error %s err=%s", prop, site, ec), "%s: returned %v", name, o.Err)
			return false
		}
	default:
		if o.Err == io.EOF {
			x.Fail(fmt.Sprintf("%s eof-on-malformed %s ref=%s", prop, site, ref.Kind), "%s: reference: %v; fastgo reported io.EOF after %d bytes", name, ref.Err, n)
			return false
		}
		after := len(stream) - int(ref.ErrBit/8)
		if after >= 512 && ec != "Corrupt" {
			x.Fail(fmt.Sprintf("%s malformed-not-corrupt %s ref=%s err=%s", prop, site, ref.Kind, ec), "%s: defect (%v) with %d input bytes after it must be a CorruptInputError, got %v", name, ref.Err, after, o.Err)
			return false
		}
		if ec != "UnexpectedEOF" && ec != "Corrupt" {
			x.Fail(fmt.Sprintf("%s wrong-error %s err=%s", prop, site, ec), "%s: returned %v", name, o.Err)
			return false
		}
	}
	if s := o.sticky(); s != "" {
		x.Fail(fmt.Sprintf("%s error-not-sticky %s", prop, site), "%s: %s", name, s)
		return false
	}
	return true
}

func refKind(r *refinflate.Result) string {
	if r.Err == nil {
		return "complete"
	}
	return r.Kind
}

type codePair struct {
	name string
	lit  []uint8
	dist []uint8
	enc  int
}

func c03Pairs() []codePair {
	lits, dists := synth.LitShapes(), synth.DistShapes()
	var out []codePair
	flat5, cl11 := dists[4], dists[6]
	small := lits[1]
	for _, l := range lits {
		out = append(out, codePair{l.Name + "/" + flat5.Name, l.Lens, flat5.Lens, synth.EncRepeat})
		out = append(out, codePair{l.Name + "/" + cl11.Name, l.Lens, cl11.Lens, synth.EncPlain})
		vs, ns := synth.Incomplete(l.Lens, 256)
		for i, v := range vs {
			out = append(out, codePair{l.Name + "[" + ns[i] + "]/" + flat5.Name, v, flat5.Lens, synth.EncRepeat})
		}
	}
	for _, d := range dists {
		out = append(out, codePair{small.Name + "/" + d.Name, small.Lens, d.Lens, synth.EncRepeat})
		vs, ns := synth.Incomplete(d.Lens, -1)
		for i, v := range vs {
			out = append(out, codePair{small.Name + "/" + d.Name + "[" + ns[i] + "]", small.Lens, v, synth.EncRepeat})
		}
	}
	return out
}

// headerRunFaults enumerates header-run fault streams.
func headerRunFaults() []namedStream {
	var out []namedStream
	// code length code: {0:3, 5:3, 8:2, 9:3, 16:3, 17:3, 18:3} is complete
	cl := make([]uint8, 19)
	cl[0], cl[5], cl[8], cl[9], cl[16], cl[17], cl[18] = 3, 3, 2, 3, 3, 3, 3
	for _, hlit := range []int{0, 1, 29} {
		for _, hdist := range []int{0, 29} {
			nlit := 257 + hlit
			ndist := 1 + hdist
			end := nlit + ndist
			want := func(p int) int {
				if p < nlit {
					// complete-ish: 8 bits for the first 226, 9 for the rest (exactly complete when nlit == 286)
					if p < 226 {
						return 8
					}
					return 9
				}
				if ndist == 1 {
					return 5
				}
				return 5
			}
			for _, rs := range []int{16, 17, 18} {
				var counts []int
				max := 0
				switch rs {
				case 16:
					counts, max = []int{3, 6}, 6
				case 17:
					counts, max = []int{3, 10}, 10
				case 18:
					counts, max = []int{11, 138}, 138
				}
				for _, cnt := range counts {
					starts := map[int]bool{}
					for e := end - 2; e <= end+max; e++ {
						if s := e - cnt; s >= 0 && s < end {
							starts[s] = true
						}
					}
					for s := nlit - max; s <= nlit+1; s++ {
						if s >= 0 && s < end {
							starts[s] = true
						}
					}
					starts[0] = true
					var sorted []int
					for s := range starts {
						sorted = append(sorted, s)
					}
					sort.Ints(sorted)
					for _, s := range sorted {
						var raw [][2]int
						for p := 0; p < s; p++ {
							raw = append(raw, [2]int{want(p), 0})
						}
						switch rs {
						case 16:
							raw = append(raw, [2]int{16, cnt - 3})
						case 17:
							raw = append(raw, [2]int{17, cnt - 3})
						case 18:
							raw = append(raw, [2]int{18, cnt - 11})
						}
						for p := s + cnt; p < end; p++ {
							raw = append(raw, [2]int{want(p), 0})
						}
						blk := synth.Block{Final: true, Type: 2, LitLens: make([]uint8, nlit), DistLens: make([]uint8, ndist), CLOverride: cl, RawCL: raw,
							Syms: []synth.Sym{{Kind: synth.SymRaw, RawBits: 0x2a5, RawN: 10}}, NoEOB: true}
						w := &synth.BitWriter{}
						blk.WriteHeader(w)
						// some symbol bits and padding so that decoding can proceed if the header is accepted
						for i := 0; i < 48; i++ {
							w.Bits(uint32(0x5a^i), 8)
						}
						out = append(out, namedStream{fmt.Sprintf("header-run sym=%d count=%d start=%d hlit=%d hdist=%d (end=%d)", rs, cnt, s, hlit, hdist, end), w.Bytes()})
					}
				}
			}
		}
	}
	return out
}

// singleFaults returns the fault-injected streams of part (c) that do not depend on a code pair.
func singleFaults() []namedStream {
	var out []namedStream
	add := func(name string, blocks ...synth.Block) {
		s := synth.Build(blocks...)
		out = append(out, namedStream{name + " bare", s})
		out = append(out, namedStream{name + " padded", append(append([]byte{}, s...), bytes.Repeat([]byte{0xa5}, 600)...)})
	}
	lits, dists := synth.LitShapes(), synth.DistShapes()
	lead := synth.Block{Type: 1, Syms: []synth.Sym{{Kind: synth.SymLit, Lit: 'h'}, {Kind: synth.SymLit, Lit: 'i'}}}
	for _, withLead := range []bool{false, true} {
		pre := func(b ...synth.Block) []synth.Block {
			if withLead {
				return append([]synth.Block{lead}, b...)
			}
			return b
		}
		tag := ""
		if withLead {
			tag = " after-block"
		}
		add("stored-bad-nlen"+tag, pre(synth.Block{Final: true, Type: 0, Stored: []byte("abc"), BadNLen: true})...)
		add("reserved-type"+tag, pre(synth.Block{Final: true, Type: 3})...)
		for _, ls := range []int{286, 287} {
			add(fmt.Sprintf("fixed-len-sym-%d%s", ls, tag), pre(synth.Block{Final: true, Type: 1, Syms: []synth.Sym{{Kind: synth.SymLit, Lit: 'a'}, {Kind: synth.SymLit, Lit: 'b'}, {Kind: synth.SymLit, Lit: 'c'}, {Kind: synth.SymLenDistSym, Lit: ls, DistSym: 0}}})...)
		}
		for _, ds := range []int{30, 31} {
			add(fmt.Sprintf("fixed-dist-sym-%d%s", ds, tag), pre(synth.Block{Final: true, Type: 1, Syms: []synth.Sym{{Kind: synth.SymLit, Lit: 'a'}, {Kind: synth.SymLit, Lit: 'b'}, {Kind: synth.SymLit, Lit: 'c'}, {Kind: synth.SymLenDistSym, Lit: 257, DistSym: ds}}})...)
		}
		for _, h := range [][2]int{{30, 0}, {31, 0}, {0, 30}, {0, 31}, {31, 31}} {
			add(fmt.Sprintf("hlit=%d,hdist=%d%s", h[0], h[1], tag), pre(synth.Block{Final: true, Type: 2, LitLens: lits[1].Lens, DistLens: dists[4].Lens, ForceH: true, HLit: h[0], HDist: h[1]})...)
		}
		// over-subscribed codes
		over := append([]uint8{}, lits[1].Lens...)
		over['c'] = 1
		add("oversubscribed-lit"+tag, pre(synth.Block{Final: true, Type: 2, LitLens: over, DistLens: dists[4].Lens})...)
		overd := append([]uint8{}, dists[4].Lens...)
		overd[0] = 1
		add("oversubscribed-dist"+tag, pre(synth.Block{Final: true, Type: 2, LitLens: lits[1].Lens, DistLens: overd})...)
		clo := make([]uint8, 19)
		for i := range clo {
			clo[i] = 2
		}
		add("oversubscribed-cl"+tag, pre(synth.Block{Final: true, Type: 2, LitLens: lits[1].Lens, DistLens: dists[4].Lens, CLOverride: clo})...)
		noeob := append([]uint8{}, lits[1].Lens...)
		noeob[256] = 0
		add("no-eob-code"+tag, pre(synth.Block{Final: true, Type: 2, LitLens: noeob, DistLens: dists[4].Lens, NoEOB: true})...)
		// repeat with nothing to repeat
		cl := make([]uint8, 19)
		cl[0], cl[8], cl[16], cl[17] = 2, 2, 2, 2
		add("repeat-first"+tag, pre(synth.Block{Final: true, Type: 2, LitLens: make([]uint8, 257), DistLens: make([]uint8, 1), CLOverride: cl, RawCL: [][2]int{{16, 0}, {8, 0}}, NoEOB: true})...)
		// missing end-of-block: block runs into the end of the input / into garbage
		add("missing-eob"+tag, pre(synth.Block{Final: true, Type: 1, NoEOB: true, Syms: []synth.Sym{{Kind: synth.SymLit, Lit: 'a'}, {Kind: synth.SymLit, Lit: 'b'}}})...)
	}
	return out
}

func countsOf(lens []uint8) map[uint8]int {
	m := map[uint8]int{}
	for _, l := range lens {
		m[l]++
	}
	return m
}

func c03Harness(cfg *Cfg) func(x *mc.Exec) {
	g := newStreamGen(cfg)
	pairs := c03Pairs()
	hdrFaults := headerRunFaults()
	faults := singleFaults()
	maxBytes := 2
	maxBits := 12
	if cfg.Thorough {
		maxBytes = 3
		maxBits = 15
	}
	leadBlock := synth.Block{Type: 2, LitLens: synth.LitShapes()[2].Lens, DistLens: synth.DistShapes()[5].Lens, Enc: synth.EncRepeat,
		Syms: []synth.Sym{{Kind: synth.SymLit, Lit: 'a'}, {Kind: synth.SymLit, Lit: 'b'}, {Kind: synth.SymMatch, Len: 3, Dist: 1}, {Kind: synth.SymMatch, Len: 3, Dist: 2}}}
	firstLife := pieces.Text(70000, cfg.Seed+9)
	var firstStream []byte
	{
		sink := &env.Sink{}
		w, _ := WK{Kind: "flate", Level: 6}.Std(sink)
		w.Write(firstLife)
		w.Close()
		firstStream = sink.Buf
	}
	corpus := shortCorpus(g)
	pol2 := []env.ReadPolicy{env.PolicyAll, env.Policy1, env.PolicyZero}
	// run reads the input with a fresh Reader, or with a Reader that already lived through another stream.
	run := func(stream []byte, pol env.ReadPolicy, reuse int) readOutcome {
		if reuse == 0 {
			return fastFlate(stream, pol)
		}
		var o readOutcome
		var r io.Reader
		if pi := Guard(func() {
			r = fflate.NewReader(env.NewSource(firstStream))
			buf := make([]byte, 4096)
			if reuse == 1 {
				io.ReadFull(r, buf[:1000]) // stopped in the middle, undelivered output pending
			} else {
				io.Copy(io.Discard, r) // read to io.EOF
			}
			r.(fflate.Resetter).Reset(env.NewSource(stream), nil)
		}); pi != nil {
			o.Panic = pi
			return o
		}
		return drainReader(r, pol)
	}
	reuseNames := []string{"fresh", "reused-midstream", "reused-after-eof"}
	return func(x *mc.Exec) {
		part := x.Choose(4, "part")
		switch part {
		case 0: // every short byte string
			n := x.Choose(maxBytes+1, "len")
			b := make([]byte, n)
			for i := range b {
				b[i] = byte(x.Choose(256, "byte"))
			}
			if n >= 2 {
				x.NonTrivial()
			}
			o := fastFlate(b, env.PolicyAll)
			if judgeMalformed(x, "C03", "part=bytes", fmt.Sprintf("input %x", b), b, o, false) {
				x.Outcome(errClass(o.Err))
			}
		case 1: // every bit continuation after a valid header
			pi := x.Choose(len(pairs)+1, "code")
			pos := x.Choose(2, "position")
			pad := x.Choose(2, "padded")
			mb := maxBits
			if !cfg.Thorough && pi < len(pairs) {
				mb = maxBits - 1 // quick tier: 11 bits after a dynamic header, 12 after the fixed one
			}
			L := x.Choose(mb+1, "nbits")
			v := 0
			if L > 0 {
				// enumerate the value bit by bit so that the engine's tree has fan-out 2 (cheap sharding)
				hi := L
				if hi > 8 {
					hi = 8
				}
				v = x.Choose(1<<uint(hi), "bits-lo")
				if L > 8 {
					v |= x.Choose(1<<uint(L-8), "bits-hi") << 8
				}
			}
			blk := synth.Block{Final: true, Type: 1, NoEOB: true}
			cname := "fixed"
			if pi < len(pairs) {
				p := pairs[pi]
				blk = synth.Block{Final: true, Type: 2, LitLens: p.lit, DistLens: p.dist, Enc: p.enc, NoEOB: true}
				cname = p.name
			}
			w := &synth.BitWriter{}
			if pos == 1 {
				synth.BuildTo(w, leadBlock)
			}
			blk.WriteHeader(w)
			w.Bits(uint32(v), L)
			stream := w.Bytes()
			if pad == 1 {
				stream = append(stream, bytes.Repeat([]byte{0}, 40)...)
			}
			x.NonTrivial()
			o := fastFlate(stream, env.PolicyAll)
			name := fmt.Sprintf("code=%s position=%d padded=%d continuation=%d bits %0*b (LSB first in stream)", cname, pos, pad, L, L, v)
			site := fmt.Sprintf("part=continuation code=%s", codeClass(cname))
			if judgeMalformed(x, "C03", site, name, stream, o, false) {
				x.Outcome(fmt.Sprintf("%s %d", errClass(o.Err), len(o.Out)))
			}
		case 2: // single faults
			fam := x.Choose(4, "fault-family")
			var ns namedStream
			switch fam {
			case 0:
				ns = hdrFaults[x.Choose(len(hdrFaults), "header-run")]
			case 1:
				ns = faults[x.Choose(len(faults), "fault")]
			case 3: // sparse codes: very incomplete codes made of long codes only - every vector of counts per code length from
				// a small menu; the lookup tables are sized for complete codes, and a sparse code spreads over more
				// prefix groups than a complete one ever does
				menu := []int{0, 1, 3, 17}
				if cfg.Thorough {
					menu = []int{0, 1, 2, 3, 6, 17}
				}
				which := x.Choose(2, "alphabet")
				first, limit := 11, 30
				if which == 1 {
					first, limit = 13, 286 // literal/length codes: sub-tables start behind 12 bits
					menu = []int{0, 1, 3, 9, 90}
				}
				var lens []uint8
				for l := first; l <= 15; l++ {
					c := menu[x.Choose(len(menu), fmt.Sprintf("count-len%d", l))]
					for i := 0; i < c; i++ {
						lens = append(lens, uint8(l))
					}
				}
				if len(lens) == 0 || len(lens) > limit-2 {
					return
				}
				var blk synth.Block
				if which == 0 {
					lit := make([]uint8, 258)
					lit['a'], lit[256], lit[257] = 2, 2, 2
					blk = synth.Block{Final: true, Type: 2, LitLens: lit, DistLens: lens,
						Syms: []synth.Sym{{Kind: synth.SymLit, Lit: 'a'}, {Kind: synth.SymMatch, Len: 3, Dist: 1}, {Kind: synth.SymLit, Lit: 'a'}}}
				} else {
					// the long codes go to the literals 0..n-1 (n <= 256) and to the length symbols behind them; 'a' (97) and
					// end-of-block keep short codes
					lit := make([]uint8, 286)
					j := 0
					for i := 0; i < 286 && j < len(lens); i++ {
						if i == 'a' || i == 256 {
							continue
						}
						lit[i] = lens[j]
						j++
					}
					lit['a'], lit[256] = 2, 2
					blk = synth.Block{Final: true, Type: 2, LitLens: trimLitLens(lit), DistLens: []uint8{1, 1},
						Syms: []synth.Sym{{Kind: synth.SymLit, Lit: 'a'}, {Kind: synth.SymLit, Lit: 0}, {Kind: synth.SymLit, Lit: 'a'}}}
				}
				ns = namedStream{fmt.Sprintf("sparse-code alphabet=%d lengths=%v", which, countsOf(lens)), synth.Build(blk)}
			case 2: // distance beyond the data produced, for every code pair that has matches
				pi := x.Choose(len(pairs)+1, "code")
				pos := x.Choose(2, "position")
				pad := x.Choose(2, "padded")
				blk := synth.Block{Final: true, Type: 1}
				cname := "fixed"
				if pi < len(pairs) {
					p := pairs[pi]
					blk = synth.Block{Final: true, Type: 2, LitLens: p.lit, DistLens: p.dist, Enc: p.enc}
					cname = p.name
				}
				lit, dist := blk.Codes()
				if lit.Left != 0 && !(lit.Left > 0) {
					return
				}
				alpha := synth.SeqAlphabet(lit, dist)
				pre := litPrefix(alpha, 3)
				produced := len(pre)
				var blks []synth.Block
				if pos == 1 {
					blks = append(blks, leadBlock)
					produced += 8
				}
				// find a distance symbol whose range exceeds what has been produced
				var m *synth.Sym
				for ds := 0; ds < 30 && ds < len(dist.Lens); ds++ {
					lo, hi := synth.DistRange(ds)
					if dist.Lens[ds] == 0 || hi <= produced {
						continue
					}
					d := produced + 1
					if d < lo {
						d = lo
					}
					for ls := 257; ls <= 285; ls++ {
						if lit.Has(ls) {
							l, _ := synth.LenRange(ls)
							m = &synth.Sym{Kind: synth.SymMatch, Len: l, Dist: d}
							break
						}
					}
					break
				}
				if m == nil {
					return
				}
				blk.Syms = append(pre, *m)
				if pad == 1 {
					blk.Syms = append(blk.Syms, litPrefix(alpha, 120)...)
				}
				blks = append(blks, blk)
				s := synth.Build(blks...)
				if pad == 1 {
					s = append(s, bytes.Repeat([]byte{0}, 40)...)
				}
				ns = namedStream{fmt.Sprintf("distance-too-far code=%s position=%d padded=%d match(%d,%d) with %d bytes produced", cname, pos, pad, m.Len, m.Dist, produced), s}
			}
			reuse := x.Choose(3, "reader")
			pol := pol2[x.Choose(len(pol2), "read-policy")]
			x.NonTrivial()
			o := run(ns.stream, pol, reuse)
			site := "part=fault " + strings.SplitN(ns.name, " ", 2)[0] + " " + reuseNames[reuse]
			if judgeMalformed(x, "C03", site, ns.name+" policy="+pol.Name+" reader="+reuseNames[reuse], ns.stream, o, false) {
				x.Outcome(fmt.Sprintf("%s %s %d", ns.name, errClass(o.Err), len(o.Out)))
			}
		case 3: // truncations and bit flips of short valid streams
			cs := corpus[x.Choose(len(corpus), "stream")]
			stream, name := cs.stream, cs.name
			mut := x.Choose(2, "mutation")
			var in []byte
			known := false
			var mname string
			if mut == 0 {
				cut := x.Choose(len(stream), "cut-at")
				in = stream[:cut]
				known = true
				mname = fmt.Sprintf("cut at byte %d of %d", cut, len(stream))
			} else {
				bit := x.Choose(len(stream)*8, "flip-bit")
				in = append([]byte{}, stream...)
				in[bit/8] ^= 1 << uint(bit%8)
				mname = fmt.Sprintf("bit %d flipped", bit)
			}
			reuse := 0
			if x.Choose(4, "reader") == 3 {
				reuse = 1
			}
			x.NonTrivial()
			o := run(in, env.PolicyAll, reuse)
			site := fmt.Sprintf("part=mutation kind=%d %s", mut, reuseNames[reuse])
			if judgeMalformed(x, "C03", site, name+": "+mname+" reader="+reuseNames[reuse], in, o, known) {
				x.Outcome(fmt.Sprintf("%s %d", errClass(o.Err), len(o.Out)))
			}
		}
	}
}

func codeClass(name string) string {
	// keep the shape names but drop per-symbol detail so that keys stay stable classes
	if i := strings.Index(name, "[drop-sym"); i >= 0 {
		j := strings.Index(name[i:], "]")
		return name[:i] + "[incomplete]" + name[i+j+1:]
	}
	return name
}

// shortCorpus is a fixed set of short valid streams: one per code shape, block type and block-type transition.
func shortCorpus(g *streamGen) []namedStream {
	var out []namedStream
	lits, dists := synth.LitShapes(), synth.DistShapes()
	mk := func(name string, blks ...synth.Block) {
		s := synth.Build(blks...)
		if _, err := stdFlate(s); err != nil {
			panic(mc.HarnessError{Msg: "corpus stream " + name + " is not valid: " + err.Error()})
		}
		out = append(out, namedStream{name, s})
	}
	body := func(blk synth.Block, n int) synth.Block {
		lit, dist := blk.Codes()
		alpha := synth.SeqAlphabet(lit, dist)
		syms := litPrefix(alpha, 6)
		for _, a := range alpha {
			if a.Kind == synth.SymMatch && a.Dist <= 6 {
				syms = append(syms, a)
			}
		}
		syms = append(syms, litPrefix(alpha, n)...)
		blk.Syms = syms
		return blk
	}
	for i, l := range lits {
		d := dists[4]
		if i%2 == 1 {
			d = dists[6]
		}
		mk("dyn("+l.Name+","+d.Name+")", body(synth.Block{Final: true, Type: 2, LitLens: l.Lens, DistLens: d.Lens, Enc: i % 3}, 30))
	}
	for i, d := range dists {
		mk("dyn(small-balanced,"+d.Name+")", body(synth.Block{Final: true, Type: 2, LitLens: lits[1].Lens, DistLens: d.Lens, Enc: i % 3}, 30))
	}
	mk("fixed", body(synth.Block{Final: true, Type: 1}, 30))
	mk("stored", synth.Block{Final: true, Type: 0, Stored: []byte("stored bytes stored bytes")})
	mk("fixed-stored-fixed", body(synth.Block{Type: 1}, 3), synth.Block{Type: 0, Stored: []byte("xyz")}, body(synth.Block{Final: true, Type: 1}, 10))
	mk("dyn-dyn", body(synth.Block{Type: 2, LitLens: lits[2].Lens, DistLens: dists[5].Lens, Enc: 1}, 10), body(synth.Block{Final: true, Type: 2, LitLens: lits[1].Lens, DistLens: dists[1].Lens, Enc: 1}, 30))
	mk("dyn-two-dyn", body(synth.Block{Type: 2, LitLens: lits[1].Lens, DistLens: dists[2].Lens, Enc: 1}, 10), body(synth.Block{Final: true, Type: 2, LitLens: lits[4].Lens, DistLens: dists[3].Lens, Enc: 1}, 30))
	mk("empty-stored-empty-fixed", synth.Block{Type: 0}, synth.Block{Final: true, Type: 1})
	for _, e := range g.encoderStreams() {
		if len(e.stream) <= 200 && len(e.stream) > 12 {
			out = append(out, e)
		}
	}
	return out
}
