package props

import (
	"bytes"
	stdflate "compress/flate"
	stdgzip "compress/gzip"
	stdzlib "compress/zlib"
	"fmt"
	"hash/adler32"
	"hash/crc32"
	"io"
	"time"

	fflate "github.com/intel/fastgo/compress/flate"
	fgzip "github.com/intel/fastgo/compress/gzip"
	fzlib "github.com/intel/fastgo/compress/zlib"
	"github.com/intel/fastgo/verif/pieces"
)

// RK names a reader configuration.
type RK struct {
	Kind  string // flate | gzip | zlib
	Dict  []byte
	Multi bool // gzip: default multistream mode
}

func (k RK) String() string {
	s := k.Kind
	if k.Dict != nil {
		s += fmt.Sprintf("/dict%d", len(k.Dict))
	}
	if k.Kind == "gzip" && !k.Multi {
		s += "/single"
	}
	return s
}

// OpenFast opens fastgo's reader of the kind on src.
func (k RK) OpenFast(src io.Reader) (r io.Reader, err error) {
	switch k.Kind {
	case "gzip":
		zr, e := fgzip.NewReader(src)
		if e != nil {
			return nil, e
		}
		zr.Multistream(k.Multi)
		return zr, nil
	case "zlib":
		return fzlib.NewReaderDict(src, k.Dict)
	}
	if k.Dict != nil {
		return fflate.NewReaderDict(src, k.Dict), nil
	}
	return fflate.NewReader(src), nil
}

// OpenStd opens the standard library's reader of the kind on src.
func (k RK) OpenStd(src io.Reader) (r io.Reader, err error) {
	switch k.Kind {
	case "gzip":
		zr, e := stdgzip.NewReader(src)
		if e != nil {
			return nil, e
		}
		zr.Multistream(k.Multi)
		return zr, nil
	case "zlib":
		return stdzlib.NewReaderDict(src, k.Dict)
	}
	if k.Dict != nil {
		return stdflate.NewReaderDict(src, k.Dict), nil
	}
	return stdflate.NewReader(src), nil
}

// container is a well-formed gzip or zlib container with its true payload(s).
type container struct {
	name    string
	kind    RK
	bytes   []byte
	payload []byte   // concatenation of all members' payloads
	members [][2]int // [start,end) of each member in bytes (gzip)
}

func gzipMember(payload []byte, level int, hdr stdgzip.Header, fast bool) []byte {
	var b bytes.Buffer
	if fast {
		w, err := fgzip.NewWriterLevel(&b, level)
		if err != nil {
			panic(err)
		}
		w.Header = fgzip.Header{Comment: hdr.Comment, Extra: hdr.Extra, ModTime: hdr.ModTime, Name: hdr.Name, OS: hdr.OS}
		w.Write(payload)
		w.Close()
	} else {
		w, err := stdgzip.NewWriterLevel(&b, level)
		if err != nil {
			panic(err)
		}
		w.Header = hdr
		w.Write(payload)
		w.Close()
	}
	return b.Bytes()
}

// addFHCRC turns on the header CRC of a gzip member that has none (the writers never emit it).
func addFHCRC(m []byte) []byte {
	_, hlen, err := rawDeflate("gzip", m)
	if err != nil || m[3]&2 != 0 {
		return m
	}
	out := append([]byte{}, m[:hlen]...)
	out[3] |= 2
	c := crc32.ChecksumIEEE(out)
	out = append(out, byte(c), byte(c>>8))
	return append(out, m[hlen:]...)
}

func zlibStream(payload []byte, level int, dict []byte) []byte {
	var b bytes.Buffer
	w, err := stdzlib.NewWriterLevelDict(&b, level, dict)
	if err != nil {
		panic(err)
	}
	w.Write(payload)
	w.Close()
	return b.Bytes()
}

// containerCorpus builds short well-formed containers covering the header flag
// combinations, payload block types, empty payloads, two members and dictionaries.
func containerCorpus(seed uint64, long bool) []container {
	var out []container
	text := pieces.Text(300, seed)
	small := []byte("hello, hello, hello world\n")
	t0 := time.Unix(1700000000, 0)
	gz := func(name string, multi bool, members ...[]byte) {
		var all []byte
		var spans [][2]int
		for _, m := range members {
			spans = append(spans, [2]int{len(all), len(all) + len(m)})
			all = append(all, m...)
		}
		// the payload is recomputed with the standard library reader
		zr, err := stdgzip.NewReader(bytes.NewReader(all))
		if err != nil {
			panic(fmt.Sprintf("corpus %s: %v", name, err))
		}
		zr.Multistream(multi)
		p, err := io.ReadAll(zr)
		if err != nil {
			panic(fmt.Sprintf("corpus %s: %v", name, err))
		}
		out = append(out, container{name: name, kind: RK{Kind: "gzip", Multi: multi}, bytes: all, payload: p, members: spans})
	}
	gz("gzip-plain-dynamic", true, gzipMember(text, 6, stdgzip.Header{}, false))
	gz("gzip-name", true, gzipMember(small, 6, stdgzip.Header{Name: "file.txt"}, false))
	gz("gzip-comment-extra-mtime", true, gzipMember(small, 1, stdgzip.Header{Comment: "a comment", Extra: []byte{1, 2, 3, 4, 5}, ModTime: t0, OS: 3}, false))
	gz("gzip-all-fields", true, gzipMember(text, 9, stdgzip.Header{Name: "n", Comment: "c", Extra: []byte("xtra"), ModTime: t0, OS: 255}, false))
	gz("gzip-fhcrc", true, addFHCRC(gzipMember(small, 6, stdgzip.Header{Name: "crc"}, false)))
	gz("gzip-fhcrc-all", true, addFHCRC(gzipMember(small, 6, stdgzip.Header{Name: "n", Comment: "c", Extra: []byte("xtra")}, false)))
	gz("gzip-stored", true, gzipMember(small, 0, stdgzip.Header{}, false))
	gz("gzip-huffman", true, gzipMember(text, -2, stdgzip.Header{}, false))
	gz("gzip-empty-payload", true, gzipMember(nil, 6, stdgzip.Header{}, false))
	gz("gzip-fast-L1", true, gzipMember(text, 1, stdgzip.Header{Name: "fast"}, true))
	gz("gzip-fast-huffman", true, gzipMember(small, -2, stdgzip.Header{}, true))
	gz("gzip-two-members", true, gzipMember(small, 6, stdgzip.Header{Name: "one"}, false), gzipMember(text, 1, stdgzip.Header{}, true))
	gz("gzip-empty-then-data", true, gzipMember(nil, 6, stdgzip.Header{}, false), gzipMember(small, 6, stdgzip.Header{}, false))
	gz("gzip-single-mode", false, gzipMember(text, 6, stdgzip.Header{Name: "x"}, false))
	zl := func(name string, payload []byte, level int, dict []byte) {
		out = append(out, container{name: name, kind: RK{Kind: "zlib", Dict: dict}, bytes: zlibStream(payload, level, dict), payload: payload})
	}
	zl("zlib-dynamic", text, 6, nil)
	zl("zlib-fixed", small, 6, nil)
	zl("zlib-stored", small, 0, nil)
	zl("zlib-huffman", text, -2, nil)
	zl("zlib-empty", nil, 6, nil)
	zl("zlib-best", text, 9, nil)
	zl("zlib-dict", []byte("hello world, hello dictionary, hello again"), 6, dict20)
	zl("zlib-dict-L1", text, 1, dict20)
	if long {
		big := pieces.Text(70000, seed+5)
		gz("gzip-70K", true, gzipMember(big, 6, stdgzip.Header{Name: "big"}, false))
		zl("zlib-70K", big, 1, nil)
	}
	return out
}

// gzipTrailer computes the trailer the statement demands for a payload.
func gzipTrailer(p []byte) []byte {
	c := crc32.ChecksumIEEE(p)
	n := uint32(len(p))
	return []byte{byte(c), byte(c >> 8), byte(c >> 16), byte(c >> 24), byte(n), byte(n >> 8), byte(n >> 16), byte(n >> 24)}
}

func zlibTrailer(p []byte) []byte {
	c := adler32.Checksum(p)
	return []byte{byte(c >> 24), byte(c >> 16), byte(c >> 8), byte(c)}
}

func gzHdr(name string) stdgzip.Header { return stdgzip.Header{Name: name} }
