package props

import (
	"fmt"

	"github.com/intel/fastgo/verif/env"
	"github.com/intel/fastgo/verif/mc"
	"github.com/intel/fastgo/verif/pieces"
)

// C20 — compression is effective: bounded expansion, and repeats are actually found.

func init() {
	register(&Prop{
		ID:       "C20",
		Category: "model_checking",
		Rule: "expansion: every accelerated setting x adversarial content kind (uniform random, near-uniform, Fibonacci-skewed, 3-bit, text) x every size of the dense ladder 0..300 and of the windows around each internal threshold (+100000, 200001, 400000 in thorough), one Write + Close on a new Writer and (sizes <= 70000) on a Writer reused through Reset after an abandoned first stream of one buffer of incompressible bytes or of text, output <= n + n/32 + 256; " +
			"effectiveness: every period 1..64 x 3 pattern contents x n in {65536, 65537, 70000, 131072, 200001} x levels {1,2,-1} x both windows, output <= n/32 + 1200; non-trivial = n >= 64",
		Assumptions: []string{"the bounds are those of the property statement"},
		Quick:       TierSpec{MaxDev: -1, Shards: 4, ShardDepth: 3, BudgetS: 600},
		Thorough:    TierSpec{MaxDev: -1, Shards: 8, ShardDepth: 3, BudgetS: 1200},
		Harness:     c20Harness,
	})
}

func c20Harness(cfg *Cfg) func(x *mc.Exec) {
	var acc []WK
	for _, l := range []int{1, 2, -1, -2} {
		acc = append(acc, WK{Kind: "flate", Level: l}, WK{Kind: "flate4k", Level: l})
	}
	var lz []WK
	for _, l := range []int{1, 2, -1} {
		lz = append(lz, WK{Kind: "flate", Level: l}, WK{Kind: "flate4k", Level: l})
	}
	ckinds := []string{"rand", "nearuniform", "fib", "r3", "text"}
	cache := map[string][]byte{}
	content := func(kind string, n int) []byte {
		b, ok := cache[kind]
		if !ok {
			b = pieces.Make(kind, 400000, cfg.Seed)
			cache[kind] = b
		}
		return b[:n]
	}
	ladders := map[string][]int{}
	nsPer := []int{65536, 65537, 70000, 131072, 200001}
	if cfg.Thorough {
		nsPer = []int{65536, 65537, 65794, 65795, 70000, 98820, 131072, 131073, 200001, 400000}
	}
	return func(x *mc.Exec) {
		mode := x.Choose(2, "mode")
		var k WK
		var data []byte
		var name string
		if mode == 0 {
			k = acc[x.Choose(len(acc), "cfg")]
			lad, ok := ladders[k.String()]
			if !ok {
				lad = sizeLadder(k, cfg.Thorough)
				if cfg.Thorough {
					lad = append(lad, 400000)
				}
				ladders[k.String()] = lad
			}
			ck := ckinds[x.Choose(len(ckinds), "content")]
			n := lad[x.Choose(len(lad), "size")]
			data = content(ck, n)
			name = fmt.Sprintf("%s,%d", ck, n)
		} else {
			k = lz[x.Choose(len(lz), "cfg")]
			p := 1 + x.Choose(64, "period")
			pat := x.Choose(3, "pattern")
			n := nsPer[x.Choose(len(nsPer), "size")]
			switch pat {
			case 0:
				data = pieces.Per(n, p, cfg.Seed)
			case 1:
				data = make([]byte, n)
				for i := range data {
					data[i] = byte('a' + (i%p)%26)
				}
			case 2:
				data = make([]byte, n)
				for i := range data {
					if i%p == 0 {
						data[i] = 0xff
					}
				}
			}
			name = fmt.Sprintf("period=%d,pattern=%d,n=%d", p, pat, n)
		}
		sink := &env.Sink{}
		r, err := newRun(k, sink)
		if err != nil {
			x.Fail("C20 ctor", "%s: %v", k, err)
			return
		}
		// the Writer is new, or reused through Reset after an abandoned first stream whose statistics are unlike the
		// data's (one full buffer of incompressible bytes, or of text, left pending): the bounds hold for every life
		if len(data) <= 70000 {
			if life := x.Choose(3, "life"); life > 0 {
				first := content([]string{"rand", "text"}[life-1], k.Fill())
				if _, _, ok := r.do(x, "C20", opWrite, first, fmt.Sprintf("W(first life: %d bytes)", len(first))); !ok {
					return
				}
				sink = &env.Sink{}
				if pi := r.reset(sink); pi != nil {
					x.Fail("C20 reset-panic", "%s: %s", k, pi)
					return
				}
				name += fmt.Sprintf(" after an abandoned first stream of %d %s bytes", len(first), []string{"rand", "text"}[life-1])
			}
		}
		if _, _, ok := r.do(x, "C20", opWrite, data, "W("+name+")"); !ok {
			return
		}
		_, err, ok := r.do(x, "C20", opClose, nil, "Close")
		if !ok {
			return
		}
		if err != nil {
			x.Fail("C20 close-error", "%s %s: %v", k, name, err)
			return
		}
		n := len(data)
		if n >= 64 {
			x.NonTrivial()
		}
		x.Note(r.fp())
		out := len(sink.Buf)
		if mode == 0 {
			if out > n+n/32+256 {
				x.Fail("C20 expansion "+k.Kind+accTag(k), "%s %s: %d bytes in, %d bytes out > n + n/32 + 256 = %d", k, name, n, out, n+n/32+256)
			}
		} else {
			if out > n/32+1200 {
				x.Fail("C20 ineffective "+k.Kind+accTag(k), "%s %s: %d bytes in, %d bytes out > n/32 + 1200 = %d", k, name, n, out, n/32+1200)
			}
		}
		x.Outcome(fmt.Sprintf("%s %s out=%d", k, name, out))
	}
}
