package props

import (
	"bytes"
	"fmt"
	"hash/adler32"
	"hash/crc32"
	"io"

	"github.com/intel/fastgo/verif/env"
	"github.com/intel/fastgo/verif/mc"
	"github.com/intel/fastgo/verif/refinflate"
)

// C07 — gzip/zlib Readers never report success for data that fails its checksum.

func init() {
	register(&Prop{
		ID:       "C07",
		Category: "fault_enumeration",
		Rule: "corpus of 22 short well-formed gzip/zlib containers (every header flag combination incl. FHCRC, stored/fixed/dynamic/Huffman-only payloads, empty payload, two members, dictionaries) and 2 of ~15 KB; for each short one EVERY single-bit flip, EVERY byte position x 16 (quick) / all 255 (thorough) other values, EVERY truncation point, every 2-bit flip inside the trailer, and (thorough) every pair of bit flips at most 16 bits apart anywhere; for the long ones flips and substitutions at a ladder of positions; x Read policy {1 MiB, 4096, 7, 1}; " +
			"oracle: io.EOF only if the bytes handed out for each member match the CRC-32 and length (Adler-32) stored in the trailer of the MUTATED input, located by the harness's own container parser and reference inflater; otherwise the error is a checksum, header, corrupt-input or unexpected-EOF error; whatever is handed out is a prefix of what the reference decodes; a cut inside a member ends in io.ErrUnexpectedEOF; non-trivial = the mutation changed the input; distinct = distinct (container, mutation, policy)",
		Assumptions: []string{"the harness's gzip/zlib framing parser and the reference inflater locate the trailer"},
		Quick:       TierSpec{MaxDev: -1, Shards: 4, ShardDepth: 3, BudgetS: 600},
		Thorough:    TierSpec{MaxDev: -1, Shards: 8, ShardDepth: 3, BudgetS: 1700},
		Harness:     c07Harness,
	})
}

type memberInfo struct {
	out      []byte
	complete bool // deflate stream complete and trailer fully present
	crcOK    bool
	end      int // offset just after the trailer
}

// parseContainer walks the (possibly mutated) container with the harness's own framing parser and the reference inflater.
// It returns the members it could decode; ok=false when the framing itself is broken (header error expected).
func parseContainer(kind RK, b []byte) (ms []memberInfo, headerOK bool) {
	pos := 0
	for {
		if pos >= len(b) {
			return ms, true
		}
		k := "gzip"
		if kind.Kind == "zlib" {
			k = "zlib"
		}
		raw, hlen, err := rawDeflate(k, b[pos:])
		if err != nil {
			return ms, false
		}
		if k == "zlib" {
			if (uint(b[pos])<<8|uint(b[pos+1]))%31 != 0 || b[pos]&0x0f != 8 || b[pos]>>4 > 7 {
				return ms, false
			}
		}
		_ = hlen
		var dict []byte
		if k == "zlib" && b[pos+1]&0x20 != 0 {
			dict = kind.Dict
		}
		res := refinflate.Inflate(raw, refinflate.Options{Dict: dict, MaxOut: maxOut})
		m := memberInfo{out: res.Out}
		if res.Err != nil {
			ms = append(ms, m)
			return ms, true
		}
		tl := 8
		if k == "zlib" {
			tl = 4
		}
		tpos := pos + hlen + res.EndByte
		if tpos+tl > len(b) {
			ms = append(ms, m)
			return ms, true
		}
		m.complete = true
		t := b[tpos : tpos+tl]
		if k == "gzip" {
			c := uint32(t[0]) | uint32(t[1])<<8 | uint32(t[2])<<16 | uint32(t[3])<<24
			n := uint32(t[4]) | uint32(t[5])<<8 | uint32(t[6])<<16 | uint32(t[7])<<24
			m.crcOK = c == crc32.ChecksumIEEE(res.Out) && n == uint32(len(res.Out))
		} else {
			c := uint32(t[0])<<24 | uint32(t[1])<<16 | uint32(t[2])<<8 | uint32(t[3])
			m.crcOK = c == adler32.Checksum(res.Out)
		}
		m.end = tpos + tl
		ms = append(ms, m)
		pos = tpos + tl
		if k == "zlib" || !kind.Multi || !m.crcOK {
			return ms, true
		}
	}
}

func c07Harness(cfg *Cfg) func(x *mc.Exec) {
	corpus := containerCorpus(cfg.Seed, true)
	// containers whose deflate data has literals and a match straddling the point where the decoder's 64 KiB output
	// window is full (a packed literal+length entry is looked up exactly there): cut at every byte from there on
	g := newStreamGen(cfg)
	wfCut := map[string]int{}
	for _, jl := range [][2]int{{0, 1}, {0, 2}, {1, 1}, {1, 2}, {2, 2}} {
		wfS, wfName, wfAt := g.windowFillStreamAt(65536, jl[0], jl[1], 258, 17, 1)
		wfP, _ := stdFlate(wfS)
		gzw := append(append([]byte{0x1f, 0x8b, 8, 0, 0, 0, 0, 0, 0, 255}, wfS...), gzipTrailer(wfP)...)
		wfCut["gzip-"+wfName] = 10 + wfAt
		corpus = append(corpus, container{name: "gzip-" + wfName, kind: RK{Kind: "gzip", Multi: true}, bytes: gzw, payload: wfP, members: [][2]int{{0, len(gzw)}}})
		if jl == [2]int{1, 2} {
			zlw := append(append([]byte{0x78, 0x9c}, wfS...), zlibTrailer(wfP)...)
			wfCut["zlib-"+wfName] = 2 + wfAt
			corpus = append(corpus, container{name: "zlib-" + wfName, kind: RK{Kind: "zlib"}, bytes: zlw, payload: wfP})
		}
	}
	pols := []env.ReadPolicy{env.PolicyAll, env.Policy4096, env.Policy7, env.Policy1}
	nvals := 16
	if cfg.Thorough {
		nvals = 255
	}
	return func(x *mc.Exec) {
		c := corpus[x.Choose(len(corpus), "container")]
		long := len(c.bytes) > 2000
		n := len(c.bytes)
		tl := 8
		if c.kind.Kind == "zlib" {
			tl = 4
		}
		nm := 4
		if cfg.Thorough {
			nm = 5
		}
		mutKind := x.Choose(nm, "mutation")
		in := append([]byte{}, c.bytes...)
		var mname string
		cutInside := false
		var positions []int
		if long {
			positions = []int{0, 1, 3, 9, 10, 11, 20, 100, 4095, 4096, n / 2, n - tl - 1, n - tl, n - 5, n - 1}
			if at, ok := wfCut[c.name]; ok {
				for p := at - 4; p < n-tl-1; p++ {
					positions = append(positions, p)
				}
			}
		} else {
			for i := 0; i < n; i++ {
				positions = append(positions, i)
			}
		}
		switch mutKind {
		case 0:
			p := positions[x.Choose(len(positions), "byte")]
			bit := x.Choose(8, "bit")
			in[p] ^= 1 << uint(bit)
			mname = fmt.Sprintf("bit %d of byte %d flipped", bit, p)
		case 1:
			p := positions[x.Choose(len(positions), "byte")]
			v := x.Choose(nvals, "value")
			// 16 spread values in quick: xor with 1..255 in steps
			d := byte(v + 1)
			if nvals == 16 {
				d = byte(v*17 + 3)
			}
			in[p] ^= d
			mname = fmt.Sprintf("byte %d xor %#02x", p, d)
		case 2:
			cuts := positions
			if long {
				cuts = append(cuts, n-2)
			}
			p := cuts[x.Choose(len(cuts), "cut")]
			in = in[:p]
			mname = fmt.Sprintf("cut at byte %d of %d", p, n)
			cutInside = true
			for _, m := range c.members {
				if p == m[0] {
					cutInside = false // exactly between members (or empty input)
				}
			}
			if c.kind.Kind == "zlib" && p == 0 {
				cutInside = true
			}
		case 4:
			// thorough: every pair of bit flips at most 16 bits apart, anywhere in a short container
			if long {
				return
			}
			a := x.Choose(n*8-1, "bitA")
			span := 16
			if n*8-a-1 < span {
				span = n*8 - a - 1
			}
			b := a + 1 + x.Choose(span, "bitB-offset")
			in[a/8] ^= 1 << uint(a%8)
			in[b/8] ^= 1 << uint(b%8)
			mname = fmt.Sprintf("bits %d and %d flipped", a, b)
		case 3:
			// two bit flips inside the trailer
			a := x.Choose(tl*8-1, "bitA")
			b := a + 1 + x.Choose(tl*8-a-1, "bitB")
			base := (n - tl) * 8
			for _, bb := range []int{a, b} {
				in[(base+bb)/8] ^= 1 << uint((base+bb)%8)
			}
			mname = fmt.Sprintf("trailer bits %d and %d flipped", a, b)
		}
		pol := pols[x.Choose(len(pols), "read-policy")]
		if long && pol.Name != "1MiB" && pol.Name != "4096" {
			return
		}
		if !bytes.Equal(in, c.bytes) {
			x.NonTrivial()
		}
		desc := fmt.Sprintf("%s (%s, %d bytes): %s, policy=%s", c.name, c.kind, n, mname, pol.Name)
		site := c.kind.Kind
		var r io.Reader
		var oerr error
		if pi := Guard(func() { r, oerr = c.kind.OpenFast(env.NewSource(in)) }); pi != nil {
			x.Fail("C07 panic "+pi.Site, "%s: %s", desc, pi)
			return
		}
		ms, headerOK := parseContainer(c.kind, in)
		var refAll []byte
		for _, m := range ms {
			refAll = append(refAll, m.out...)
		}
		if oerr != nil {
			ec := errClass(oerr)
			okEmpty := len(in) == 0 && oerr == io.EOF && c.kind.Kind == "gzip"
			if !okEmpty && ec != "gzip.ErrHeader" && ec != "zlib.ErrHeader" && ec != "zlib.ErrDictionary" && ec != "UnexpectedEOF" && ec != "gzip.ErrChecksum" {
				x.Fail(fmt.Sprintf("C07 constructor-error %s err=%s", site, ec), "%s: constructor returned %v", desc, oerr)
				return
			}
			x.Outcome("constructor " + ec)
			return
		}
		o := drainReader(r, pol)
		x.Note(o.FP)
		if cls, msg := o.basicFaults(); cls != "" {
			x.Fail("C07 "+cls+" "+site, "%s: %s", desc, msg)
			return
		}
		ec := errClass(o.Err)
		if o.Err == io.EOF {
			// success: every member must match its trailer in the mutated input
			if !headerOK {
				x.Fail("C07 eof-with-broken-framing "+site, "%s: io.EOF although the harness's parser finds the framing broken", desc)
				return
			}
			for i, m := range ms {
				if !m.complete || !m.crcOK {
					x.Fail(fmt.Sprintf("C07 eof-on-checksum-mismatch %s", site), "%s: io.EOF after %d bytes, but member %d of the mutated input is complete=%v checksum/length ok=%v", desc, len(o.Out), i, m.complete, m.crcOK)
					return
				}
			}
			if !bytes.Equal(o.Out, refAll) {
				x.Fail("C07 eof-with-different-data "+site, "%s: %s (reference decode of the mutated input is 'want')", desc, diffDesc(o.Out, refAll))
				return
			}
		} else {
			switch ec {
			case "gzip.ErrChecksum", "gzip.ErrHeader", "zlib.ErrChecksum", "zlib.ErrHeader", "zlib.ErrDictionary", "Corrupt", "UnexpectedEOF":
			default:
				x.Fail(fmt.Sprintf("C07 wrong-error %s err=%s", site, ec), "%s: ended with %v", desc, o.Err)
				return
			}
			if len(o.Out) > len(refAll) || !bytes.Equal(o.Out, refAll[:len(o.Out)]) {
				x.Fail("C07 fabricated-data "+site, "%s: handed out %d bytes then %v; reference decodes %d bytes: %s", desc, len(o.Out), o.Err, len(refAll), diffDesc(o.Out, refAll))
				return
			}
		}
		if mutKind == 2 {
			if cutInside {
				if ec != "UnexpectedEOF" {
					x.Fail(fmt.Sprintf("C07 cut-not-unexpected-eof %s err=%s", site, ec), "%s: a container cut inside a member must end in io.ErrUnexpectedEOF, got %v after %d bytes", desc, o.Err, len(o.Out))
					return
				}
				if len(o.Out) > len(c.payload) || !bytes.Equal(o.Out, c.payload[:len(o.Out)]) {
					x.Fail("C07 cut-wrong-prefix "+site, "%s: %s", desc, diffDesc(o.Out, c.payload))
					return
				}
			} else if o.Err != io.EOF {
				x.Fail(fmt.Sprintf("C07 cut-between-members-not-eof %s err=%s", site, ec), "%s: a file cut exactly between members is a shorter valid file, got %v", desc, o.Err)
				return
			}
		}
		if s := o.sticky(); s != "" {
			x.Fail("C07 error-not-sticky "+site, "%s: %s", desc, s)
			return
		}
		x.Outcome(fmt.Sprintf("%s %s %d", site, ec, len(o.Out)))
	}
}
