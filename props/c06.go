package props

import (
	"bytes"
	stdgzip "compress/gzip"
	stdzlib "compress/zlib"
	"encoding/binary"
	"fmt"
	"hash/crc32"
	"io"
	"strings"
	"time"

	fgzip "github.com/intel/fastgo/compress/gzip"
	fzlib "github.com/intel/fastgo/compress/zlib"
	"github.com/intel/fastgo/verif/env"
	"github.com/intel/fastgo/verif/mc"
	"github.com/intel/fastgo/verif/pieces"
)

// C06 — gzip and zlib containers round-trip and interoperate with the standard library.

func init() {
	register(&Prop{
		ID:       "C06",
		Category: "model_checking",
		Rule: "(a) gzip header product: Name, Comment in {empty, \"a\", Latin-1 \"\\u00e9\", 511 chars} x Extra in {nil, empty, 1 byte, 65535 bytes} x ModTime in {zero, 1 s, 2^32-1 s} x OS in {0,3,255} (576 headers) x levels {1,-2,6} (every level -2..9 in thorough) x both directions, plus headers the standard library rejects (non-Latin-1, NUL, oversize Extra); " +
			"(c) one gzip member of 2^32+5 bytes (the trailer length is modulo 2^32), fastgo Writer -> compress/gzip and fastgo Readers; (b) payload in {tiny strings up to length 6 (9 thorough) over {a,b}, the reduced pieces} x every level -2..9 x call pattern in {W C, W F W C, F C, C, 1-byte writes} x {new writer, writer reused through Reset after a first stream} x gzip / zlib / zlib with a 20-byte and a 40000-byte dictionary x both directions; " +
			"oracle: the standard library reads fastgo's output as the same payload and header it reads from its own output; fastgo reads the standard library's output as the standard library does; the trailer is CRC-32 || length mod 2^32 (gzip, little endian) / Adler-32 (zlib, big endian) recomputed by the harness; header errors agree; non-trivial = payload not empty",
		Assumptions: []string{"compress/gzip and compress/zlib talking to themselves define the normal form"},
		Quick:       TierSpec{MaxDev: -1, Shards: 4, ShardDepth: 3, BudgetS: 600},
		Thorough:    TierSpec{MaxDev: -1, Shards: 8, ShardDepth: 3, BudgetS: 1200},
		Harness:     c06Harness,
	})
}

func hdrEq(a, b stdgzip.Header) bool {
	return a.Name == b.Name && a.Comment == b.Comment && bytes.Equal(a.Extra, b.Extra) && a.ModTime.Equal(b.ModTime) && a.OS == b.OS
}

func toStdHdr(h fgzip.Header) stdgzip.Header {
	return stdgzip.Header{Comment: h.Comment, Extra: h.Extra, ModTime: h.ModTime, Name: h.Name, OS: h.OS}
}

func toFastHdr(h stdgzip.Header) fgzip.Header {
	return fgzip.Header{Comment: h.Comment, Extra: h.Extra, ModTime: h.ModTime, Name: h.Name, OS: h.OS}
}

// pattern applies a call pattern to a writer.
func applyPattern(w WC, pat int, data []byte) error {
	switch pat {
	case 0:
		if _, err := w.Write(data); err != nil {
			return err
		}
	case 1:
		h := len(data) / 2
		if _, err := w.Write(data[:h]); err != nil {
			return err
		}
		if err := w.Flush(); err != nil {
			return err
		}
		if _, err := w.Write(data[h:]); err != nil {
			return err
		}
	case 2:
		if err := w.Flush(); err != nil {
			return err
		}
		if _, err := w.Write(data); err != nil {
			return err
		}
	case 3:
		if _, err := w.Write(data); err != nil {
			return err
		}
	case 4:
		for i := range data {
			if _, err := w.Write(data[i : i+1]); err != nil {
				return err
			}
		}
	}
	return w.Close()
}

var patNames = []string{"W C", "W F W C", "F W C", "W C (one piece)", "1-byte writes"}

func c06Harness(cfg *Cfg) func(x *mc.Exec) {
	long511 := strings.Repeat("n", 511)
	names := []string{"", "a", "\u00e9", long511}
	extras := [][]byte{nil, {}, {7}, bytes.Repeat([]byte{0xe5}, 65535)}
	mtimes := []time.Time{{}, time.Unix(1, 0), time.Unix(1<<32-1, 0)}
	oss := []byte{0, 3, 255}
	badHdrs := []stdgzip.Header{{Name: "\u4e16"}, {Comment: "\u4e16"}, {Name: "a\x00b"}, {Extra: make([]byte, 65536)}, {Comment: "x\x00"}}
	hdrLevels := []int{1, -2, 6}
	if cfg.Thorough {
		hdrLevels = []int{-2, -1, 0, 1, 2, 3, 4, 5, 6, 7, 8, 9}
	}
	var payloads []pieces.Piece
	tl := 6
	if cfg.Thorough {
		tl = 9
	}
	for _, t := range pieces.Tiny(2, tl) {
		payloads = append(payloads, pieces.P(fmt.Sprintf("%q", t), t))
	}
	red := pieces.Reduced(pieces.T32, cfg.Seed)
	payloads = append(payloads, red[0], red[1], red[2], red[5], pieces.P("10K-text", pieces.Text(10000, cfg.Seed)))
	// maximal byte values over lengths far beyond the number of bytes Adler-32 can sum without reducing (5552)
	payloads = append(payloads, pieces.P("ff-500000", pieces.Zero(500000, 0xff)), pieces.P("fe-250000", pieces.Zero(250000, 0xfe)))
	if cfg.Thorough {
		payloads = append(payloads, red[3], red[4])
	}
	d40 := dict40k()
	type ck struct {
		kind string
		dict []byte
	}
	cks := []ck{{"gzip", nil}, {"zlib", nil}, {"zlibdict", dict20}, {"zlibdict", d40}}
	small := []byte("hello, hello, hello world\n")
	capCache := map[string][]byte{}
	capContent := func(kind string, n int) []byte {
		b, ok := capCache[kind]
		if !ok {
			b = pieces.Make(kind, 70000, cfg.Seed)
			capCache[kind] = b
		}
		return b[:n]
	}
	return func(x *mc.Exec) {
		part := x.Choose(3, "part")
		if part == 2 {
			// one member of 2^32+5 bytes: the length in the trailer is the length modulo 2^32. Written by fastgo's
			// Writer (level 1) from a repeating 1 MiB block without ever holding the payload, read back by compress/gzip
			// and by fastgo's Reader into a counting, CRC-ing sink.
			x.NonTrivial()
			const total = 1<<32 + 5
			block := make([]byte, 1<<20)
			for i := range block {
				block[i] = byte(i % 251)
			}
			var fb bytes.Buffer
			crc := crc32.NewIEEE()
			var werr error
			if pi := Guard(func() {
				fw, e := fgzip.NewWriterLevel(&fb, 1)
				if e != nil {
					werr = e
					return
				}
				left := int64(total)
				for left > 0 && werr == nil {
					n := int64(len(block))
					if n > left {
						n = left
					}
					_, werr = fw.Write(block[:n])
					crc.Write(block[:n])
					left -= n
				}
				if werr == nil {
					werr = fw.Close()
				}
			}); pi != nil {
				x.Fail("C06 panic "+pi.Site, "4 GiB member: %s", pi)
				return
			}
			if werr != nil {
				x.Fail("C06 writer-error gzip 4GiB", "writing a member of 2^32+5 bytes: %v", werr)
				return
			}
			out := fb.Bytes()
			x.Note(uint64(len(out)))
			if t := out[len(out)-8:]; !bytes.Equal(t[4:], []byte{5, 0, 0, 0}) || binary.LittleEndian.Uint32(t[:4]) != crc.Sum32() {
				x.Fail("C06 trailer gzip 4GiB", "member of 2^32+5 bytes: trailer %x, want CRC %08x and length 5 (modulo 2^32)", t, crc.Sum32())
				return
			}
			drain := func(r io.Reader) (int64, uint32, error) {
				h := crc32.NewIEEE()
				n, err := io.Copy(h, r)
				return n, h.Sum32(), err
			}
			sr, e := stdgzip.NewReader(bytes.NewReader(out))
			if e != nil {
				x.Fail("C06 std-reads-fast gzip 4GiB", "compress/gzip cannot open the member: %v", e)
				return
			}
			if n, c, err := drain(sr); err != nil || n != total || c != crc.Sum32() {
				x.Fail("C06 std-reads-fast gzip 4GiB", "compress/gzip reads fastgo's member of 2^32+5 bytes as %d bytes, crc %08x, err %v", n, c, err)
				return
			}
			var n int64
			var c uint32
			var rerr error
			if pi := Guard(func() {
				fr, e := fgzip.NewReader(bytes.NewReader(out))
				if e != nil {
					rerr = e
					return
				}
				n, c, rerr = drain(fr)
			}); pi != nil {
				x.Fail("C06 panic "+pi.Site, "reading the 4 GiB member: %s", pi)
				return
			}
			if rerr != nil || n != total || c != crc.Sum32() {
				x.Fail("C06 fast-reads gzip 4GiB", "fastgo reads a valid member of 2^32+5 bytes (compress/gzip reads it to io.EOF) as %d bytes, crc %08x, err %v", n, c, rerr)
				return
			}
			x.Outcome("4GiB member ok")
			return
		}
		if part == 0 {
			// gzip header product
			var h stdgzip.Header
			bad := x.Choose(2, "header-class") == 1
			if bad {
				h = badHdrs[x.Choose(len(badHdrs), "bad-header")]
			} else {
				h.Name = names[x.Choose(len(names), "name")]
				h.Comment = names[x.Choose(len(names), "comment")]
				h.Extra = extras[x.Choose(len(extras), "extra")]
				h.ModTime = mtimes[x.Choose(len(mtimes), "mtime")]
				h.OS = oss[x.Choose(len(oss), "os")]
			}
			lvl := hdrLevels[x.Choose(len(hdrLevels), "level")]
			x.NonTrivial()
			desc := fmt.Sprintf("gzip header name=%d comment=%d extra=%d mtime=%v os=%d bad=%v level=%d", len(h.Name), len(h.Comment), len(h.Extra), h.ModTime.Unix(), h.OS, bad, lvl)
			// fastgo writer
			var fb, sb bytes.Buffer
			var ferr error
			if pi := Guard(func() {
				fw, err := fgzip.NewWriterLevel(&fb, lvl)
				if err != nil {
					ferr = err
					return
				}
				fw.Header = toFastHdr(h)
				if _, err := fw.Write(small); err != nil {
					ferr = err
					return
				}
				ferr = fw.Close()
			}); pi != nil {
				x.Fail("C06 panic "+pi.Site, "%s: %s", desc, pi)
				return
			}
			sw, _ := stdgzip.NewWriterLevel(&sb, lvl)
			sw.Header = h
			_, serr := sw.Write(small)
			if serr == nil {
				serr = sw.Close()
			}
			if (ferr == nil) != (serr == nil) {
				x.Fail(fmt.Sprintf("C06 header-error-mismatch fast=%s std=%s", nilness(ferr), nilness(serr)), "%s: fastgo writer error %v, compress/gzip error %v", desc, ferr, serr)
				return
			}
			if serr != nil {
				x.Outcome("both reject header")
				return
			}
			// std reads both
			read := func(b []byte, fast bool) (stdgzip.Header, []byte, error) {
				if fast {
					var hd stdgzip.Header
					var p []byte
					var err error
					if pi := Guard(func() {
						zr, e := fgzip.NewReader(bytes.NewReader(b))
						if e != nil {
							err = e
							return
						}
						hd = toStdHdr(zr.Header)
						p, err = io.ReadAll(zr)
					}); pi != nil {
						return hd, nil, fmt.Errorf("panic: %s", pi)
					}
					return hd, p, err
				}
				zr, e := stdgzip.NewReader(bytes.NewReader(b))
				if e != nil {
					return stdgzip.Header{}, nil, e
				}
				p, err := io.ReadAll(zr)
				return zr.Header, p, err
			}
			h1, p1, e1 := read(fb.Bytes(), false) // std reads fastgo's output
			h0, p0, e0 := read(sb.Bytes(), false) // std reads its own output: the normal form
			if e0 != nil {
				panic(mc.HarnessError{Msg: "compress/gzip cannot read its own output: " + e0.Error()})
			}
			if e1 != nil || !bytes.Equal(p1, p0) || !hdrEq(h1, h0) {
				x.Fail("C06 std-reads-fast gzip-header", "%s: compress/gzip reads fastgo's output as err=%v payload=%d header=%+v; its own output as payload=%d header=%+v", desc, e1, len(p1), trimHdr(h1), len(p0), trimHdr(h0))
				return
			}
			h2, p2, e2 := read(sb.Bytes(), true) // fastgo reads std's output
			if e2 != nil || !bytes.Equal(p2, p0) || !hdrEq(h2, h0) {
				x.Fail("C06 fast-reads-std gzip-header", "%s: fastgo reads compress/gzip's output as err=%v payload=%d header=%+v; compress/gzip reads payload=%d header=%+v", desc, e2, len(p2), trimHdr(h2), len(p0), trimHdr(h0))
				return
			}
			if t := fb.Bytes()[fb.Len()-8:]; !bytes.Equal(t, gzipTrailer(small)) {
				x.Fail("C06 trailer gzip", "%s: trailer %x, want %x", desc, t, gzipTrailer(small))
				return
			}
			x.Note(uint64(fb.Len()))
			x.Outcome(fmt.Sprintf("hdr ok %d bytes", fb.Len()))
			return
		}
		// payload x level x pattern x reuse x kind
		var c ck
		var lvl, pat int
		var p pieces.Piece
		var reuse bool
		if x.Choose(2, "payload-class") == 1 {
			// payloads aimed at the compressor rather than at the container (the block token cap of C01): through the
			// gzip and zlib Writers at the levels that run fastgo's own match finders, read back by the standard library
			c = cks[x.Choose(2, "kind")]
			lvl = 1 + x.Choose(2, "level")
			d, nm := tokenCapData(x, cfg.Seed, capContent)
			p = pieces.P("token-cap("+nm+")", d)
		} else {
			c = cks[x.Choose(len(cks), "kind")]
			lvl = x.Choose(12, "level") - 2
			p = payloads[x.Choose(len(payloads), "payload")]
			pat = x.Choose(len(patNames), "pattern")
			reuse = x.Choose(2, "reuse") == 1
		}
		if pat == 4 && len(p.Data) > 20000 {
			return
		}
		if len(p.Data) > 200000 && !(lvl == -2 || lvl == 1 || lvl == 2 || lvl == 6) {
			return // the long checksum payloads: one level per compressor
		}
		if len(p.Data) > 0 {
			x.NonTrivial()
		}
		wk := WK{Kind: c.kind, Level: lvl, Dict: c.dict}
		desc := fmt.Sprintf("%s payload=%s pattern=%q reuse=%v", wk, p.Name, patNames[pat], reuse)
		site := fmt.Sprintf("%s%s reuse=%v", c.kind, accTag(wk), reuse)
		mk := func(fast bool) ([]byte, error, *PanicInfo) {
			sink := &env.Sink{}
			var err error
			pi := Guard(func() {
				var w WC
				if fast {
					w, err = wk.Fast(sink)
				} else {
					w, err = wk.Std(sink)
				}
				if err != nil {
					return
				}
				if reuse {
					// the first life carries header fields; Reset must drop them like compress/gzip does
					switch g := w.(type) {
					case *fgzip.Writer:
						g.Header = fgzip.Header{Name: "first-life", Comment: "c", Extra: []byte{1, 2}, ModTime: time.Unix(1e9, 0), OS: 7}
					case *stdgzip.Writer:
						g.Header = stdgzip.Header{Name: "first-life", Comment: "c", Extra: []byte{1, 2}, ModTime: time.Unix(1e9, 0), OS: 7}
					}
					if err = applyPattern(w, 0, small); err != nil {
						return
					}
					sink = &env.Sink{}
					w.Reset(sink)
				}
				err = applyPattern(w, pat, p.Data)
			})
			return sink.Buf, err, pi
		}
		fout, ferr, pi := mk(true)
		if pi != nil {
			x.Fail("C06 panic "+pi.Site, "%s: %s", desc, pi)
			return
		}
		sout, serr, _ := mk(false)
		if ferr != nil || serr != nil {
			x.Fail("C06 writer-error "+site, "%s: fastgo %v, stdlib %v", desc, ferr, serr)
			return
		}
		rk := RK{Kind: "gzip", Multi: true}
		if c.kind != "gzip" {
			rk = RK{Kind: "zlib", Dict: c.dict}
		}
		readAll := func(b []byte, fast bool) ([]byte, error) {
			var out []byte
			var err error
			if pi := Guard(func() {
				var r io.Reader
				if fast {
					r, err = rk.OpenFast(bytes.NewReader(b))
				} else {
					r, err = rk.OpenStd(bytes.NewReader(b))
				}
				if err != nil {
					return
				}
				out, err = io.ReadAll(r)
			}); pi != nil {
				return nil, fmt.Errorf("panic: %s", pi)
			}
			return out, err
		}
		dictBug := func(out []byte) bool {
			return c.dict != nil && len(out) == len(c.dict)+len(p.Data) && bytes.HasPrefix(out, c.dict) && bytes.Equal(out[len(c.dict):], p.Data)
		}
		p1, e1 := readAll(fout, false)
		if e1 != nil || !bytes.Equal(p1, p.Data) {
			if e1 != nil && dictBug(p1) || (e1 != nil && c.dict != nil && !wk.Accelerated()) {
				// compress/flate.NewWriterDict emits the dictionary as content when the first block is stored (known finding of C01)
				p0, e0 := readAll(sout, false)
				if fmt.Sprint(e0) == fmt.Sprint(e1) && bytes.Equal(p0, p1) {
					x.Fail("C06 "+c.kind+"(delegated) dict-prepended", "%s: the standard library cannot read back either writer's output (dictionary emitted as content): %v", desc, e1)
					return
				}
			}
			x.Fail("C06 std-reads-fast "+site, "%s: compress/* reads fastgo's output as err=%v, %s", desc, e1, diffDesc(p1, p.Data))
			return
		}
		if c.kind == "gzip" {
			// header fields as compress/gzip reads them from both outputs (after Reset: the defaults again)
			zf, ef := stdgzip.NewReader(bytes.NewReader(fout))
			zs, es := stdgzip.NewReader(bytes.NewReader(sout))
			if ef != nil || es != nil {
				x.Fail("C06 std-reads-fast "+site, "%s: compress/gzip cannot open the output: fastgo's %v, its own %v", desc, ef, es)
				return
			}
			if !hdrEq(zf.Header, zs.Header) {
				x.Fail("C06 header-differs "+site, "%s: compress/gzip reads header %s from fastgo's output and %s from its own", desc, trimHdr(zf.Header), trimHdr(zs.Header))
				return
			}
		}
		p2, e2 := readAll(sout, true)
		p0, e0 := readAll(sout, false)
		if fmt.Sprint(e2) != fmt.Sprint(e0) || !bytes.Equal(p2, p0) {
			x.Fail("C06 fast-reads-std "+site, "%s: fastgo reads compress/*'s output as err=%v (%d bytes), compress/* itself err=%v (%d bytes)", desc, e2, len(p2), e0, len(p0))
			return
		}
		p3, e3 := readAll(fout, true)
		if e3 != nil || !bytes.Equal(p3, p.Data) {
			x.Fail("C06 fast-reads-fast "+site, "%s: err=%v, %s", desc, e3, diffDesc(p3, p.Data))
			return
		}
		var want, got []byte
		if c.kind == "gzip" {
			want, got = gzipTrailer(p.Data), fout[len(fout)-8:]
		} else {
			want, got = zlibTrailer(p.Data), fout[len(fout)-4:]
		}
		if !bytes.Equal(want, got) {
			x.Fail("C06 trailer "+site, "%s: trailer %x, want %x", desc, got, want)
			return
		}
		x.Note(uint64(len(fout))<<8 ^ uint64(pat))
		x.Outcome(fmt.Sprintf("%s %d->%d", site, len(p.Data), len(fout)))
	}
}

func trimHdr(h stdgzip.Header) string {
	return fmt.Sprintf("{name %d %q comment %d extra %d mtime %d os %d}", len(h.Name), trunc40(h.Name), len(h.Comment), len(h.Extra), h.ModTime.Unix(), h.OS)
}

func trunc40(s string) string {
	if len(s) > 40 {
		return s[:40]
	}
	return s
}

var _ = stdzlib.NewReader
var _ = fzlib.NewReader
