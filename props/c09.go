package props

import (
	"bytes"
	"fmt"
	"sort"

	"github.com/intel/fastgo/verif/env"
	"github.com/intel/fastgo/verif/mc"
	"github.com/intel/fastgo/verif/pieces"
)

// C09 — compressed bytes depend only on the data and Flush positions, not on Write sizes.

func init() {
	register(&Prop{
		ID:       "C09",
		Category: "model_checking",
		Rule: "for every accelerated setting, every data set (content kinds at sizes around the fill trigger T, 2T, 64K+T; tiny strings) and every Flush-position set (none, mid, T, {1,n-1}, Flush first, the same position twice, right before Close, {0,0,n,n}): " +
			"every subset of the cut-candidate set K (0,1,2,7,8,9, T-9..T+9, 32767, 32768, 65535..65537, |D|-1, |D| and the Flush positions) of size <=1 and every pair from the reduced set (quick) / every subset of size <=2 plus triples of the reduced set, the all-candidates partition and the 1-byte partition (thorough), " +
			"each also with a zero-length Write before or after every Write and every Flush; oracle: emitted bytes identical to the one-Write-per-Flush-segment run; non-trivial = at least one cut strictly inside the data",
		Assumptions: []string{"none beyond the engine: the reference is the same Writer type fed the same data in one piece"},
		Quick:       TierSpec{MaxDev: -1, Shards: 4, ShardDepth: 3, BudgetS: 600},
		Thorough:    TierSpec{MaxDev: -1, Shards: 8, ShardDepth: 3, BudgetS: 1700},
		Harness:     c09Harness,
	})
}

type c09data struct {
	name string
	data []byte
}

func c09Harness(cfg *Cfg) func(x *mc.Exec) {
	kinds := accKinds(false)
	kinds = append(kinds, WK{Kind: "gzip", Level: 1}, WK{Kind: "zlib", Level: -2})
	contentKinds := []string{"text", "rand", "zero"}
	if cfg.Thorough {
		contentKinds = []string{"text", "rand", "zero", "r3", "fib", "per7"}
	}
	dataFor := map[int][]c09data{}
	mkData := func(T int) []c09data {
		if d, ok := dataFor[T]; ok {
			return d
		}
		var out []c09data
		sizes := []int{T + 1, 2*T + 17, 65536 + T}
		if cfg.Thorough {
			sizes = []int{T - 1, T, T + 1, 2*T + 17, 65536 + T, 200001}
		}
		for _, ck := range contentKinds {
			for _, n := range sizes {
				out = append(out, c09data{fmt.Sprintf("%s,%d", ck, n), pieces.Make(ck, n, cfg.Seed)})
			}
		}
		for _, s := range []string{"", "a", "ab", "abcabcabcabc", "aaaaaaaaaaaaaaaaaaaaaaaaaaaaaaaaaaaaaaaaaa"} {
			out = append(out, c09data{fmt.Sprintf("%q", s), []byte(s)})
		}
		dataFor[T] = out
		return out
	}
	type refKey struct {
		k, d, phi int
	}
	refCache := map[refKey][]byte{}
	return func(x *mc.Exec) {
		ki := x.Choose(len(kinds), "cfg")
		k := kinds[ki]
		T := k.Fill()
		ds := mkData(T)
		di := x.Choose(len(ds), "data")
		D := ds[di].data
		n := len(D)
		// Flush position sets
		phis := [][]int{nil, {n / 2}, {T}, {1, n - 1}, {0}, {n / 2, n / 2}, {n}, {0, 0, n, n}}
		pi := x.Choose(len(phis), "flushset")
		var phi []int
		for _, p := range phis[pi] {
			if p >= 0 && p <= n {
				phi = append(phi, p) // Flush first, repeated Flush at one position and Flush right before Close included
			}
		}
		// candidate cuts
		cand := map[int]bool{}
		for _, c := range []int{0, 1, 2, 7, 8, 9, 32767, 32768, 65535, 65536, 65537, n - 1, n} {
			cand[c] = true
		}
		for c := T - 9; c <= T+9; c++ {
			cand[c] = true
		}
		var K []int
		for c := range cand {
			if c >= 0 && c <= n {
				K = append(K, c)
			}
		}
		sort.Ints(K)
		redSet := map[int]bool{1: true, T - 1: true, T: true, T + 1: true, 65535: true, 65536: true, 65537: true, n - 1: true}
		var R []int
		for _, c := range K {
			if redSet[c] {
				R = append(R, c)
			}
		}
		// choose the cut set
		var cuts []int
		nontriv := false
		mode := x.Choose(5, "cutmode")
		switch mode {
		case 0: // no cut
		case 1: // one cut from K
			cuts = []int{K[x.Choose(len(K), "cut")]}
		case 2: // pair: reduced set (quick) or full K (thorough)
			S := R
			if cfg.Thorough {
				S = K
			}
			if len(S) < 2 {
				return
			}
			a := x.Choose(len(S)-1, "cutA")
			b := a + 1 + x.Choose(len(S)-a-1, "cutB")
			cuts = []int{S[a], S[b]}
		case 3: // all candidates at once
			cuts = append(cuts, K...)
		case 4: // thorough: triples of the reduced set, or the 1-byte partition for small data
			if !cfg.Thorough {
				if n > 300 {
					return
				}
				for c := 1; c < n; c++ {
					cuts = append(cuts, c)
				}
			} else {
				sub := x.Choose(2, "sub")
				if sub == 0 {
					if n > 20000 {
						return
					}
					for c := 1; c < n; c++ {
						cuts = append(cuts, c)
					}
				} else {
					if len(R) < 3 {
						return
					}
					a := x.Choose(len(R)-2, "cutA")
					b := a + 1 + x.Choose(len(R)-a-2, "cutB")
					c := b + 1 + x.Choose(len(R)-b-1, "cutC")
					cuts = []int{R[a], R[b], R[c]}
				}
			}
		}
		zmode := 0
		if len(cuts) < 100 && (len(cuts) > 0 || len(phi) > 0) {
			zmode = x.Choose(3, "zero-writes")
		}
		for _, c := range cuts {
			if c > 0 && c < n {
				nontriv = true
			}
		}
		// run with the partition
		run := func(cuts []int, zmode int) ([]byte, bool) {
			sink := &env.Sink{}
			r, err := newRun(k, sink)
			if err != nil {
				x.Fail("C09 ctor "+k.Kind, "%s: %v", k, err)
				return nil, false
			}
			// merge cut and flush positions
			type ev struct {
				pos   int
				flush bool
			}
			var evs []ev
			for _, c := range cuts {
				evs = append(evs, ev{c, false})
			}
			for _, p := range phi {
				evs = append(evs, ev{p, true})
			}
			sort.SliceStable(evs, func(i, j int) bool { return evs[i].pos < evs[j].pos })
			pos := 0
			for _, e := range evs {
				seg := D[pos:e.pos]
				if len(seg) > 0 || !e.flush {
					if zmode == 1 {
						if _, _, ok := r.do(x, "C09", opWrite, []byte{}, "W(0)"); !ok {
							return nil, false
						}
					}
					_, err, ok := r.do(x, "C09", opWrite, seg, fmt.Sprintf("W(%d..%d)", pos, e.pos))
					if !ok {
						return nil, false
					}
					if err != nil {
						x.Fail("C09 write-error "+k.Kind+accTag(k), "%s [%s]: %v", k, r.hist, err)
						return nil, false
					}
					if zmode == 2 {
						if _, _, ok := r.do(x, "C09", opWrite, nil, "W(nil)"); !ok {
							return nil, false
						}
					}
				}
				pos = e.pos
				if e.flush {
					if zmode == 1 {
						if _, _, ok := r.do(x, "C09", opWrite, []byte{}, "W(0)"); !ok {
							return nil, false
						}
					}
					_, err, ok := r.do(x, "C09", opFlush, nil, "Flush")
					if !ok {
						return nil, false
					}
					if err != nil {
						x.Fail("C09 flush-error "+k.Kind+accTag(k), "%s [%s]: %v", k, r.hist, err)
						return nil, false
					}
					if zmode == 2 {
						if _, _, ok := r.do(x, "C09", opWrite, nil, "W(nil)"); !ok {
							return nil, false
						}
					}
				}
			}
			if pos < n {
				_, err, ok := r.do(x, "C09", opWrite, D[pos:], fmt.Sprintf("W(%d..%d)", pos, n))
				if !ok {
					return nil, false
				}
				if err != nil {
					x.Fail("C09 write-error "+k.Kind+accTag(k), "%s [%s]: %v", k, r.hist, err)
					return nil, false
				}
			}
			_, err, ok := r.do(x, "C09", opClose, nil, "Close")
			if !ok {
				return nil, false
			}
			if err != nil {
				x.Fail("C09 close-error "+k.Kind+accTag(k), "%s [%s]: %v", k, r.hist, err)
				return nil, false
			}
			if !bytes.Equal(r.data, D) {
				panic(mc.HarnessError{Msg: fmt.Sprintf("C09 partition bug: wrote %d bytes of %d [%s]", len(r.data), n, r.hist)})
			}
			x.Note(r.fp())
			return sink.Buf, true
		}
		rk := refKey{ki, di, pi}
		ref, ok := refCache[rk]
		if !ok {
			ref, ok = run(nil, 0)
			if !ok {
				return
			}
			if cls, msg := CheckStream(k, ref, D); cls != "" {
				x.Fail(fmt.Sprintf("C09 reference-run %s %s", k.Kind+accTag(k), cls), "%s data=%s flush=%v: %s", k, ds[di].name, phi, msg)
				return
			}
			refCache[rk] = ref
		}
		got, ok := run(cuts, zmode)
		if !ok {
			return
		}
		if nontriv {
			x.NonTrivial()
		}
		if !bytes.Equal(got, ref) {
			i := 0
			for i < len(got) && i < len(ref) && got[i] == ref[i] {
				i++
			}
			what := "differs"
			if cls, _ := CheckStream(k, got, D); cls != "" {
				what = "differs-and-" + cls
			}
			x.Fail(fmt.Sprintf("C09 output-%s %s", what, k.Kind+accTag(k)),
				"%s data=%s flush-positions=%v cuts=%v zero-writes=%d: output differs from the single-Write run at byte %d (%d vs %d bytes)",
				k, ds[di].name, phi, truncInts(cuts), zmode, i, len(got), len(ref))
		}
		x.Outcome(fmt.Sprintf("%s %s phi=%d out=%d", k, ds[di].name, pi, len(got)))
	}
}

func truncInts(l []int) []int {
	if len(l) > 40 {
		return l[:40]
	}
	return l
}
