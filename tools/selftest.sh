#!/bin/bash
# Runs every mutant of mutants/expect.tsv (or those matching $1) against the checks expected to catch it.
# A mutant that the repository's own tests already reject is reported as such (it is then not a useful mutant).
cd "$(dirname "$0")/.."
pat="${1:-.}"
par="${SELFTEST_PAR:-3}"
grep -E "$pat" mutants/expect.tsv | while IFS=$'\t' read -r name checks; do
  echo "tools/mutant_run.sh --tests mutants/$name.diff $checks"
done | xargs -P "$par" -I{} bash -c '{}' 2>&1 | grep --line-buffered -E "^(MUTANT|TESTS)"
