#!/bin/bash
# usage: tools/mutant_run.sh [--tests] <patch.diff> <check-id>...
# Applies a patch to a scratch copy of /repo, optionally runs the repository's own tests there
# (they must stay green for a mutant to count), then runs the named checks (quick tier) from a
# scratch copy of /verif pointed at that copy. /repo and /verif are not touched.
# Prints one line per check:  MUTANT <patch> <check> CAUGHT|MISSED|HARNESS-ERROR  and  TESTS pass|FAIL
set -u
runtests=0
if [ "${1:-}" = "--tests" ]; then runtests=1; shift; fi
patch="$(readlink -f "$1")"; shift
export GOFLAGS=-mod=mod GOPROXY=off GOSUMDB=off GOTOOLCHAIN=local
tmp=$(mktemp -d /tmp/mt.XXXXXX)
trap 'rm -rf "$tmp"' EXIT
mkdir -p "$tmp/repo" "$tmp/verif"
git -C /repo archive HEAD | tar -x -C "$tmp/repo"
( cd /verif && tar -c --exclude=.git --exclude=.bin --exclude=.work --exclude=replays --exclude=evidence --exclude=seeded . ) | tar -x -C "$tmp/verif"
cd "$tmp/repo" && patch -s -p1 < "$patch" || { echo "MUTANT $(basename $patch) - PATCH-FAILED"; exit 3; }
if ! go build ./... 2>"$tmp/build.log"; then echo "MUTANT $(basename $patch) - DOES-NOT-COMPILE"; head -5 "$tmp/build.log"; exit 3; fi
if [ $runtests = 1 ]; then
  if go test -vet=off -count=1 ./... >"$tmp/test.log" 2>&1; then echo "TESTS $(basename $patch) pass"; else echo "TESTS $(basename $patch) FAIL"; grep -E "^(--- FAIL|FAIL|panic)" "$tmp/test.log" | head -5; fi
fi
cd "$tmp/verif" && go mod edit -replace github.com/intel/fastgo="$tmp/repo"
export VERIF_REPO="$tmp/repo"
for c in "$@"; do
  out=$(./check "$c" quick 2>&1); rc=$?
  case $rc in
    1) echo "MUTANT $(basename $patch) $c CAUGHT  $(echo "$out" | grep -m1 '^  key:' | cut -c1-160)";;
    0) echo "MUTANT $(basename $patch) $c MISSED";;
    *) echo "MUTANT $(basename $patch) $c HARNESS-ERROR rc=$rc"; echo "$out" | grep -m3 HARNESS;;
  esac
done
