#!/usr/bin/env python3
# usage: mkmutant.py <name> <file-relative-to-repo> <old> <new>   -> writes /verif/mutants/<name>.diff
import sys,subprocess,tempfile,os
name,rel,old,new=sys.argv[1:5]
src=open('/repo/'+rel).read()
assert src.count(old)==1, (name, src.count(old))
mod=src.replace(old,new)
with tempfile.NamedTemporaryFile('w',delete=False) as f: f.write(mod); tmp=f.name
d=subprocess.run(['diff','-u','/repo/'+rel,tmp],capture_output=True,text=True).stdout
d=d.replace('--- /repo/'+rel,'--- a/'+rel,1).replace('+++ '+tmp,'+++ b/'+rel,1)
open('/verif/mutants/'+name+'.diff','w').write(d); os.unlink(tmp)
print('wrote',name)
