#!/bin/bash
# usage: tools/seed_verify.sh <seed-name> <worktree> <demo-test-relpath> <check-id>...
# Confirms a seeded property-breaking change independently and stores it under /verif/seeded/<seed-name>/:
#  (1) the repository's tests pass with the change, (2) the demonstration fails with it, (3) passes without it,
#  then runs the named checks against it (scratch copies; /repo untouched).
set -u
name="$1"; wt="$2"; demo="$3"; shift 3
export GOFLAGS=-mod=mod GOPROXY=off GOSUMDB=off GOTOOLCHAIN=local
dst=/verif/seeded/$name; mkdir -p "$dst"
cp "$wt/patch.diff" "$dst/patch.diff"
cp "$wt/$demo" "$dst/$(basename $demo)"
tmp=$(mktemp -d /tmp/sv.XXXXXX); trap 'rm -rf "$tmp"' EXIT
mkdir -p "$tmp/repo"; git -C /repo archive HEAD | tar -x -C "$tmp/repo"
cd "$tmp/repo"
pkg="./$(dirname $demo)/"
cp "$dst/$(basename $demo)" "$demo"
r3=FAIL; go test -vet=off -count=1 -run 'TestSeedDemo$' "$pkg" >"$tmp/d0.log" 2>&1 && r3=pass
patch -s -p1 < "$dst/patch.diff" || { echo "SEED $name PATCH-FAILED"; exit 3; }
r2=pass; go test -vet=off -count=1 -run 'TestSeedDemo$' "$pkg" >"$tmp/d1.log" 2>&1 || r2=FAIL
rm "$demo"
r1=FAIL; go test -vet=off -count=1 ./... >"$tmp/t.log" 2>&1 && r1=pass
echo "SEED $name: repo-tests-with-change=$r1 demo-with-change=$r2 demo-without-change=$r3"
res=$(/verif/tools/mutant_run.sh "$dst/patch.diff" "$@" 2>&1 | grep ^MUTANT)
echo "$res"
{
 echo "{"
 echo " \"seed\": \"$name\","
 echo " \"confirmed\": {\"repo_tests_with_change\": \"$r1\", \"demo_with_change\": \"$r2\", \"demo_without_change\": \"$r3\"},"
 echo " \"ran\": \"tools/seed_verify.sh $name <worktree> $demo $*\","
 echo " \"checks\": ["
 echo "$res" | sed 's/"/\\"/g; s/^/  "/; s/$/",/' | sed '$ s/,$//'
 echo " ]"
 echo "}"
} > "$dst/verify.json"
