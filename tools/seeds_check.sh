#!/bin/bash
# Re-runs every stored seed (seeded/expect.tsv: name <TAB> property) against the check of its property, in scratch copies.
# usage: tools/seeds_check.sh [regex]     env SEEDS_PAR (default 2)
cd "$(dirname "$0")/.."
pat="${1:-.}"
grep -E "$pat" seeded/expect.tsv | while IFS=$'\t' read -r name prop; do
  echo "tools/mutant_run.sh seeded/$name/patch.diff $prop | sed 's/patch.diff/$name/'"
done | xargs -P "${SEEDS_PAR:-2}" -I{} bash -c '{}' 2>&1 | grep --line-buffered -E "^MUTANT"
